// Engine T driver: interprets JSON case scripts against the real affinitree library
// (built from /repo's current working tree, with --cfg affinitree_verif) and exports
// every resulting structure with f64 values as hex bit patterns.
//
// usage: drv <cases.json> <results.json>
//   cases.json   = {"cases":[{"id":..., "steps":[{"op":..., ...}, ...]}, ...]}
//   results.json = {"results":[{"id":..., "steps":[{"ok":bool, "out":..., "panic":msg?}, ...]}, ...]}

use std::cell::RefCell;
use std::collections::HashMap;
use std::panic::{catch_unwind, AssertUnwindSafe};
use std::sync::atomic::{AtomicUsize, Ordering};
use std::sync::Mutex;

use affinitree::distill::arch::{Architecture, TensorShape};
use affinitree::distill::builder::{afftree_from_layers, read_layers, Layer};
use affinitree::distill::schema;
use affinitree::linalg::affine::{AffFunc, PolyRepr, Polytope};
use affinitree::linalg::polyhedron::PolytopeStatus;
use affinitree::pwl::afftree::AffTree;
use affinitree::pwl::node::NodeState;
use affinitree::tree::iter::{Bfs, DfsEdge, DfsPre, TraversalMut};
use affinitree::verif_hooks::{self, LpFault};
use ndarray::{Array1, Array2, ShapeBuilder};
use serde_json::{json, Map, Value};

thread_local! {
    static LAST_PANIC: RefCell<String> = RefCell::new(String::new());
}

// ---------------------------------------------------------------- numbers

fn hx(x: f64) -> Value {
    Value::String(format!("{:016x}", x.to_bits()))
}

fn num(v: &Value) -> f64 {
    match v {
        Value::String(s) => {
            if s == "nan" {
                f64::NAN
            } else if s == "inf" {
                f64::INFINITY
            } else if s == "-inf" {
                f64::NEG_INFINITY
            } else {
                f64::from_bits(u64::from_str_radix(s, 16).expect("hex f64"))
            }
        }
        Value::Number(n) => n.as_f64().unwrap(),
        _ => panic!("driver: bad number {v}"),
    }
}

fn vec1(v: &Value) -> Array1<f64> {
    Array1::from_iter(v.as_array().expect("array").iter().map(num))
}

fn mat2(v: &Value, cols: Option<usize>) -> Array2<f64> {
    let rows = v.as_array().expect("matrix");
    let nrows = rows.len();
    let ncols = if nrows > 0 {
        rows[0].as_array().unwrap().len()
    } else {
        cols.unwrap_or(0)
    };
    let mut m = Array2::<f64>::zeros((nrows, ncols));
    for (i, r) in rows.iter().enumerate() {
        for (j, x) in r.as_array().unwrap().iter().enumerate() {
            m[[i, j]] = num(x);
        }
    }
    m
}

fn get_cols(v: &Value) -> Option<usize> {
    v.get("cols").and_then(|c| c.as_u64()).map(|c| c as usize)
}

// raw constructors: bypass from_mats' debug_assert on non-normal floats on purpose only
// where the script says so ("raw": true); default goes through from_mats like a user would.
fn aff_of(v: &Value) -> AffFunc {
    let m = mat2(&v["mat"], get_cols(v));
    if v.get("layout").and_then(|l| l.as_str()) == Some("f") {
        // same logical matrix in column-major (non-standard) memory layout
        let mut f = Array2::<f64>::zeros(m.raw_dim().f());
        f.assign(&m);
        return AffFunc::from_mats(f, vec1(&v["bias"]));
    }
    AffFunc::from_mats(m, vec1(&v["bias"]))
}

fn poly_of(v: &Value) -> Polytope {
    Polytope::from_mats(mat2(&v["mat"], get_cols(v)), vec1(&v["bias"]))
}

fn x_vec1(a: &Array1<f64>) -> Value {
    Value::Array(a.iter().map(|x| hx(*x)).collect())
}

fn x_mat2(a: &Array2<f64>) -> Value {
    Value::Array(
        a.outer_iter()
            .map(|r| Value::Array(r.iter().map(|x| hx(*x)).collect()))
            .collect(),
    )
}

fn x_aff(a: &AffFunc) -> Value {
    json!({"mat": x_mat2(&a.mat), "bias": x_vec1(&a.bias), "cols": a.mat.shape()[1]})
}

fn x_poly(a: &Polytope) -> Value {
    json!({"mat": x_mat2(&a.mat), "bias": x_vec1(&a.bias), "cols": a.mat.shape()[1]})
}

fn x_status(s: &PolytopeStatus) -> Value {
    match s {
        PolytopeStatus::Infeasible => json!({"status": "infeasible"}),
        PolytopeStatus::Unbounded => json!({"status": "unbounded"}),
        PolytopeStatus::Optimal(w) => json!({"status": "optimal", "point": x_vec1(w)}),
        PolytopeStatus::Error(m) => json!({"status": "error", "msg": m}),
    }
}

// ---------------------------------------------------------------- trees

enum AnyTree {
    B(AffTree<2>),
    Q(AffTree<4>),
}

macro_rules! with_tree {
    ($any:expr, $t:ident => $body:expr) => {
        match $any {
            AnyTree::B($t) => $body,
            AnyTree::Q($t) => $body,
        }
    };
}

fn x_state(s: &NodeState) -> Value {
    match s {
        NodeState::Indeterminate => json!("indeterminate"),
        NodeState::Infeasible => json!("infeasible"),
        NodeState::Feasible => json!("feasible"),
        NodeState::FeasibleWitness(ws) => {
            json!({"witness": Value::Array(ws.iter().map(x_vec1).collect())})
        }
    }
}

fn x_tree<const K: usize>(t: &AffTree<K>) -> Value {
    let mut nodes = Vec::new();
    for (idx, nd) in t.tree.node_iter() {
        nodes.push(json!({
            "idx": idx,
            "leaf": nd.isleaf,
            "parent": nd.parent,
            "children": Value::Array(nd.children.iter().map(|c| json!(c)).collect()),
            "mat": x_mat2(&nd.value.aff.mat),
            "bias": x_vec1(&nd.value.aff.bias),
            "cols": nd.value.aff.mat.shape()[1],
            "state": x_state(&nd.value.state),
        }));
    }
    json!({"k": K, "in_dim": t.in_dim(), "root": t.tree.get_root_idx(), "len": t.len(), "nodes": nodes})
}

fn eval_tree<const K: usize>(t: &AffTree<K>, x: &Array1<f64>) -> Value {
    match t.find_terminal(t.tree.get_root(), x) {
        None => json!({"defined": false}),
        Some((node, labels)) => {
            // index of the terminal: found through its parent link + labels (no public index on TreeNode)
            let mut idx = t.tree.get_root_idx();
            for l in &labels {
                idx = t.tree.tree_node(idx).unwrap().children[*l].unwrap();
            }
            let val = node.value.aff.apply(x);
            let val2 = t.evaluate(x);
            json!({"defined": true, "labels": labels, "terminal": idx, "value": x_vec1(&val),
                   "evaluate_agrees": val2.map(|v| v == val).unwrap_or(false)})
        }
    }
}

fn polyhedra_stream<const K: usize>(t: &AffTree<K>, skips: &[usize], use_iter: bool) -> Value {
    let mut out = Vec::new();
    if use_iter {
        let mut it = t.polyhedra_iter();
        let hint = it.size_hint();
        let mut pos = 0usize;
        while let Some((depth, idx, n_remaining, polys)) = it.next() {
            out.push(json!({"depth": depth, "index": idx, "n_remaining": n_remaining,
                            "polys": Value::Array(polys.iter().map(x_poly).collect())}));
            for _ in 0..skips.iter().filter(|p| **p == pos).count() {
                it.skip_subtree();      // a position listed twice: skip_subtree is called twice in a row
            }
            pos += 1;
        }
        json!({"items": out, "size_hint": [hint.0, hint.1]})
    } else {
        let mut it = t.polyhedra();
        let mut pos = 0usize;
        while let Some((data, polys)) = it.next(&t.tree) {
            out.push(json!({"depth": data.depth, "index": data.index, "n_remaining": data.n_remaining,
                            "polys": Value::Array(polys.iter().map(x_poly).collect())}));
            for _ in 0..skips.iter().filter(|p| **p == pos).count() {
                it.skip_subtree();      // a position listed twice: skip_subtree is called twice in a row
            }
            pos += 1;
        }
        json!({"items": out})
    }
}

fn traversal<const K: usize>(t: &AffTree<K>, kind: &str, start: usize, skips: &[usize]) -> Value {
    let mut out = Vec::new();
    let mut hints = Vec::new();
    let mut pos = 0usize;
    macro_rules! run_nodes {
        ($ty:ty) => {{
            let mut it = <$ty>::new(&t.tree, start);
            let h = it.size_hint();
            hints.push(json!([h.0, h.1]));
            while let Some(d) = it.next(&t.tree) {
                out.push(json!({"depth": d.depth, "index": d.index, "n_remaining": d.n_remaining}));
                for _ in 0..skips.iter().filter(|p| **p == pos).count() {
                    it.skip_subtree();
                }
                let h = it.size_hint();
                hints.push(json!([h.0, h.1]));
                pos += 1;
            }
        }};
    }
    match kind {
        "dfs" => run_nodes!(DfsPre),
        "bfs" => run_nodes!(Bfs),
        "edge" => {
            let mut it = DfsEdge::new(&t.tree, start);
            let h = it.size_hint();
            hints.push(json!([h.0, h.1]));
            while let Some(e) = it.next(&t.tree) {
                out.push(json!({"src": e.src, "label": e.label, "dest": e.dest}));
                for _ in 0..skips.iter().filter(|p| **p == pos).count() {
                    it.skip_subtree();
                }
                let h = it.size_hint();
                hints.push(json!([h.0, h.1]));
                pos += 1;
            }
        }
        _ => panic!("driver: unknown traversal {kind}"),
    }
    json!({"items": out, "size_hints": hints})
}

fn layer_of(v: &Value) -> Layer {
    match v["t"].as_str().unwrap() {
        "linear" => Layer::Linear(aff_of(&v["aff"])),
        "relu" => Layer::ReLU(v["row"].as_u64().unwrap() as usize),
        "leaky" => Layer::LeakyReLU(v["row"].as_u64().unwrap() as usize, num(&v["alpha"])),
        "hardtanh" => Layer::HardTanh(v["row"].as_u64().unwrap() as usize),
        "hardsigmoid" => Layer::HardSigmoid(v["row"].as_u64().unwrap() as usize),
        "argmax" => Layer::Argmax,
        "classchar" => Layer::ClassChar(v["c"].as_u64().unwrap() as usize),
        other => panic!("driver: unknown layer {other}"),
    }
}

fn x_layer(l: &Layer) -> Value {
    match l {
        Layer::Linear(a) => json!({"t": "linear", "aff": x_aff(a)}),
        Layer::ReLU(r) => json!({"t": "relu", "row": r}),
        Layer::LeakyReLU(r, a) => json!({"t": "leaky", "row": r, "alpha": hx(*a)}),
        Layer::HardTanh(r) => json!({"t": "hardtanh", "row": r}),
        Layer::HardSigmoid(r) => json!({"t": "hardsigmoid", "row": r}),
        Layer::Argmax => json!({"t": "argmax"}),
        Layer::ClassChar(c) => json!({"t": "classchar", "c": c}),
    }
}

// ---------------------------------------------------------------- interpreter

#[derive(Default)]
struct Env {
    trees: HashMap<String, AnyTree>,
    archs: HashMap<String, Architecture>,
    layers: HashMap<String, Vec<Layer>>,
}

fn us(v: &Value, key: &str) -> usize {
    v[key].as_u64().unwrap_or_else(|| panic!("driver: missing usize field {key} in {v}")) as usize
}

fn st<'a>(v: &'a Value, key: &str) -> &'a str {
    v[key].as_str().unwrap_or_else(|| panic!("driver: missing string field {key} in {v}"))
}

fn usize_list(v: &Value) -> Vec<usize> {
    v.as_array().map(|a| a.iter().map(|x| x.as_u64().unwrap() as usize).collect()).unwrap_or_default()
}

fn tree_b<'a>(env: &'a Env, name: &str) -> &'a AffTree<2> {
    match env.trees.get(name).unwrap_or_else(|| panic!("driver: no tree {name}")) {
        AnyTree::B(t) => t,
        _ => panic!("driver: tree {name} is not binary"),
    }
}

fn tree_b_mut<'a>(env: &'a mut Env, name: &str) -> &'a mut AffTree<2> {
    match env.trees.get_mut(name).unwrap_or_else(|| panic!("driver: no tree {name}")) {
        AnyTree::B(t) => t,
        _ => panic!("driver: tree {name} is not binary"),
    }
}

fn clone_any(t: &AnyTree) -> AnyTree {
    match t {
        AnyTree::B(t) => AnyTree::B(t.clone()),
        AnyTree::Q(t) => AnyTree::Q(t.clone()),
    }
}

macro_rules! binop_impl {
    ($a:expr, $b:expr, $op:tt, $variant:expr) => {
        match $variant {
            "rr" => &$a $op &$b,
            "or" => $a.clone() $op &$b,
            "oo" => $a.clone() $op $b.clone(),
            "ro" => &$a $op $b.clone(),
            other => panic!("driver: unknown variant {other}"),
        }
    };
}

macro_rules! scalar_impl {
    ($t:expr, $f:expr, $op:tt, $variant:expr) => {
        match $variant {
            "tf_o" => $t.clone() $op $f.clone(),
            "tf_r" => $t.clone() $op &$f,
            "ft_o" => $f.clone() $op $t.clone(),
            "ft_r" => &$f $op $t.clone(),
            other => panic!("driver: unknown variant {other}"),
        }
    };
}

fn binop<const K: usize>(a: &AffTree<K>, b: &AffTree<K>, op: &str, variant: &str) -> AffTree<K> {
    match op {
        "add" => binop_impl!(*a, *b, +, variant),
        "sub" => binop_impl!(*a, *b, -, variant),
        "mul" => binop_impl!(*a, *b, *, variant),
        "div" => binop_impl!(*a, *b, /, variant),
        other => panic!("driver: unknown op {other}"),
    }
}

fn scalar_op<const K: usize>(t: &AffTree<K>, f: &AffFunc, op: &str, variant: &str) -> AffTree<K> {
    match op {
        "add" => scalar_impl!(*t, *f, +, variant),
        "sub" => scalar_impl!(*t, *f, -, variant),
        "mul" => scalar_impl!(*t, *f, *, variant),
        "div" => scalar_impl!(*t, *f, /, variant),
        other => panic!("driver: unknown op {other}"),
    }
}

fn fault_of(v: &Value) -> LpFault {
    match st(v, "kind") {
        "error" => LpFault::Error,
        "unbounded" => LpFault::Unbounded,
        "perturb" => LpFault::Perturb(v["delta"].as_array().unwrap().iter().map(num).collect()),
        "far" => LpFault::Far(num(&v["value"])),
        other => panic!("driver: unknown fault {other}"),
    }
}

fn step(env: &mut Env, s: &Value) -> Value {
    let op = st(s, "op");
    match op {
        // ---- construction
        "from_aff" => {
            let a = aff_of(&s["aff"]);
            let k = s.get("k").and_then(|k| k.as_u64()).unwrap_or(2);
            let t = if k == 4 { AnyTree::Q(AffTree::<4>::from_aff(a)) } else { AnyTree::B(AffTree::<2>::from_aff(a)) };
            env.trees.insert(st(s, "name").to_string(), t);
            Value::Null
        }
        "new" => {
            let k = s.get("k").and_then(|k| k.as_u64()).unwrap_or(2);
            let dim = us(s, "dim");
            let t = if k == 4 { AnyTree::Q(AffTree::<4>::new(dim)) } else { AnyTree::B(AffTree::<2>::new(dim)) };
            env.trees.insert(st(s, "name").to_string(), t);
            Value::Null
        }
        "from_poly" => {
            let p = poly_of(&s["poly"]);
            let f = aff_of(&s["f_true"]);
            let g = if s["f_false"].is_null() { None } else { Some(aff_of(&s["f_false"])) };
            match AffTree::<2>::from_poly(p, f, g.as_ref()) {
                Ok(t) => {
                    env.trees.insert(st(s, "name").to_string(), AnyTree::B(t));
                    json!({"result": "ok"})
                }
                Err(e) => json!({"result": "err", "msg": e.to_string()}),
            }
        }
        "from_slice" => {
            let r = vec1(&s["ref"]);
            env.trees.insert(st(s, "name").to_string(), AnyTree::B(AffTree::<2>::from_slice(&r)));
            Value::Null
        }
        "schema" => {
            let dim = us(s, "dim");
            let row = s.get("row").and_then(|r| r.as_u64()).unwrap_or(0) as usize;
            let p: Vec<f64> = s.get("params").and_then(|p| p.as_array()).map(|a| a.iter().map(num).collect()).unwrap_or_default();
            let t = match st(s, "kind") {
                "relu" => schema::partial_ReLU(dim, row),
                "leaky" => schema::partial_leaky_ReLU(dim, row, p[0]),
                "hardtanh" => schema::partial_hard_tanh(dim, row, p[0], p[1]),
                "hardshrink" => schema::partial_hard_shrink(dim, row, p[0]),
                "hardsigmoid" => schema::partial_hard_sigmoid(dim, row),
                "threshold" => schema::partial_threshold(dim, row, p[0], p[1]),
                "argmax" => schema::argmax(dim),
                "classchar" => schema::class_characterization(dim, row),
                "infnorm" => {
                    let mn = if s["min"].is_null() { None } else { Some(num(&s["min"])) };
                    let mx = if s["max"].is_null() { None } else { Some(num(&s["max"])) };
                    schema::inf_norm(dim, mn, mx)
                }
                other => panic!("driver: unknown schema {other}"),
            };
            env.trees.insert(st(s, "name").to_string(), AnyTree::B(t));
            Value::Null
        }
        "clone" => {
            let t = clone_any(env.trees.get(st(s, "src")).expect("driver: no tree"));
            env.trees.insert(st(s, "name").to_string(), t);
            Value::Null
        }
        "add_child" => {
            let a = aff_of(&s["aff"]);
            let (parent, label) = (us(s, "parent"), us(s, "label"));
            let t = env.trees.get_mut(st(s, "tree")).expect("driver: no tree");
            let r = with_tree!(t, t => t.add_child_node(parent, label, a));
            match r {
                Ok(i) => json!({"result": "ok", "index": i}),
                Err(e) => json!({"result": "err", "msg": e.to_string()}),
            }
        }
        "remove_child" => {
            let (parent, label) = (us(s, "parent"), us(s, "label"));
            let t = env.trees.get_mut(st(s, "tree")).expect("driver: no tree");
            let r = with_tree!(t, t => t.tree.try_remove_child(parent, label).map(|_| ()));
            match r {
                Ok(()) => json!({"result": "ok"}),
                Err(e) => json!({"result": "err", "msg": e.to_string()}),
            }
        }
        "cut_and_regrow" => {
            // remove_all_descendants on the pick-th decision below the root (it stays in the tree as a terminal), then
            // optionally turn the first other terminal into a decision with two new terminals (reuses the freed indices)
            let pick = us(s, "pick");
            let regrow = if s["regrow"].is_object() {
                Some((aff_of(&s["regrow"]["dec"]), aff_of(&s["regrow"]["t0"]), aff_of(&s["regrow"]["t1"])))
            } else {
                None
            };
            let t = env.trees.get_mut(st(s, "tree")).expect("driver: no tree");
            with_tree!(t, t => {
                let root = t.tree.get_root_idx();
                let decs: Vec<usize> = t.tree.decision_indices().filter(|i| *i != root).collect();
                if decs.is_empty() {
                    json!({"result": "none"})
                } else {
                    let node = decs[pick % decs.len()];
                    let removed = if s["how"].as_str() == Some("children") {
                        // child by child through try_remove_child: the node must end up as a terminal again
                        let labels: Vec<usize> = t.tree.children(node).map(|e| e.label).collect();
                        let mut n = 0;
                        for l in labels {
                            n += t.tree.num_nodes(t.tree.child(node, l).expect("driver: child").target_idx) as i32;
                            t.tree.try_remove_child(node, l).expect("driver: try_remove_child");
                        }
                        Ok(n)
                    } else {
                        t.tree.remove_all_descendants(node).map_err(|e| e.to_string())
                    };
                    let mut grown = Vec::new();
                    if let Some((dec, t0, t1)) = regrow {
                        let first = t.tree.terminal_indices().find(|i| *i != node);
                        if let Some(term) = first {
                            t.update_node(term, dec).expect("driver: update_node on a terminal");
                            grown.push(t.add_child_node(term, 0, t0).expect("driver: add_child_node"));
                            grown.push(t.add_child_node(term, 1, t1).expect("driver: add_child_node"));
                        }
                    }
                    json!({"result": "ok", "node": node, "removed": removed.unwrap_or(-1), "grown": grown})
                }
            })
        }
        "merge_child" => {
            let (parent, label) = (us(s, "parent"), us(s, "label"));
            let t = env.trees.get_mut(st(s, "tree")).expect("driver: no tree");
            let r = with_tree!(t, t => t.merge_child_with_parent(parent, label).map(|_| ()));
            match r {
                Ok(()) => json!({"result": "ok"}),
                Err(e) => json!({"result": "err", "msg": e.to_string()}),
            }
        }
        "update_node" => {
            let a = aff_of(&s["aff"]);
            let node = us(s, "node");
            let t = env.trees.get_mut(st(s, "tree")).expect("driver: no tree");
            let r = with_tree!(t, t => t.update_node(node, a).map(|_| ()));
            match r {
                Ok(()) => json!({"result": "ok"}),
                Err(e) => json!({"result": "err", "msg": e.to_string()}),
            }
        }
        "replace_node" => {
            let a = aff_of(&s["aff"]);
            let node = us(s, "node");
            let t = env.trees.get_mut(st(s, "tree")).expect("driver: no tree");
            let r = with_tree!(t, t => t.replace_node(node, a));
            match r {
                Ok(i) => json!({"result": "ok", "index": i}),
                Err(e) => json!({"result": "err", "msg": e.to_string()}),
            }
        }
        // ---- transformations
        "compose" => {
            let other = clone_any(env.trees.get(st(s, "other")).expect("driver: no tree"));
            let prune = s["prune"].as_bool().unwrap_or(false);
            let verbose = s["verbose"].as_bool().unwrap_or(false);      // the progress-bar instantiations of the same entry point
            let t = env.trees.get_mut(st(s, "tree")).expect("driver: no tree");
            match (t, &other) {
                (AnyTree::B(t), AnyTree::B(o)) => match (prune, verbose) {
                    (true, false) => t.compose::<true, false>(o),
                    (false, false) => t.compose::<false, false>(o),
                    (true, true) => t.compose::<true, true>(o),
                    (false, true) => t.compose::<false, true>(o),
                },
                (AnyTree::Q(t), AnyTree::Q(o)) => match (prune, verbose) {
                    (true, false) => t.compose::<true, false>(o),
                    (false, false) => t.compose::<false, false>(o),
                    (true, true) => t.compose::<true, true>(o),
                    (false, true) => t.compose::<false, true>(o),
                },
                _ => panic!("driver: compose with different K"),
            }
            // the right operand must be left unchanged: export it after the call
            with_tree!(&other, o => json!({"other_after": x_tree(o)}))
        }
        "apply_func" => {
            let a = aff_of(&s["aff"]);
            let t = env.trees.get_mut(st(s, "tree")).expect("driver: no tree");
            with_tree!(t, t => t.apply_func(&a));
            Value::Null
        }
        "apply_func_at_node" => {
            let a = aff_of(&s["aff"]);
            let node = us(s, "node");
            let t = env.trees.get_mut(st(s, "tree")).expect("driver: no tree");
            with_tree!(t, t => t.apply_func_at_node(node, &a));
            Value::Null
        }
        "elim" => {
            let t = env.trees.get_mut(st(s, "tree")).expect("driver: no tree");
            let c = with_tree!(t, t => t.infeasible_elimination());
            json!({"nodes_checked": c.nodes_checked, "cached_state": c.cached_state, "skipped_nodes": c.skipped_nodes,
                   "parent_sol_inherited": c.parent_sol_inherited, "mirror_iter": c.mirror_iter,
                   "lps_solved": c.lps_solved, "lps_feasible": c.lps_feasible, "lps_infeasible": c.lps_infeasible,
                   "lps_error": c.lps_error})
        }
        "forward_if_redundant" => {
            let node = us(s, "node");
            let t = env.trees.get_mut(st(s, "tree")).expect("driver: no tree");
            let r = with_tree!(t, t => t.forward_if_redundant(node).is_some());
            json!({"forwarded": r})
        }
        "reduce" => {
            tree_b_mut(env, st(s, "tree")).reduce();
            Value::Null
        }
        "neg" => {
            let t = clone_any(env.trees.get(st(s, "src")).expect("driver: no tree"));
            let r = match t {
                AnyTree::B(t) => AnyTree::B(-t),
                AnyTree::Q(t) => AnyTree::Q(-t),
            };
            env.trees.insert(st(s, "name").to_string(), r);
            Value::Null
        }
        "binop" => {
            let a = env.trees.get(st(s, "a")).expect("driver: no tree");
            let b = env.trees.get(st(s, "b")).expect("driver: no tree");
            let (o, v) = (st(s, "binop"), st(s, "variant"));
            let r = match (a, b) {
                (AnyTree::B(a), AnyTree::B(b)) => AnyTree::B(binop(a, b, o, v)),
                (AnyTree::Q(a), AnyTree::Q(b)) => AnyTree::Q(binop(a, b, o, v)),
                _ => panic!("driver: binop with different K"),
            };
            env.trees.insert(st(s, "name").to_string(), r);
            Value::Null
        }
        "scalar_op" => {
            let f = aff_of(&s["aff"]);
            let t = env.trees.get(st(s, "tree")).expect("driver: no tree");
            let (o, v) = (st(s, "binop"), st(s, "variant"));
            let r = match t {
                AnyTree::B(t) => AnyTree::B(scalar_op(t, &f, o, v)),
                AnyTree::Q(t) => AnyTree::Q(scalar_op(t, &f, o, v)),
            };
            env.trees.insert(st(s, "name").to_string(), r);
            Value::Null
        }
        "remove_axes" => {
            let mask = Array1::from_iter(s["mask"].as_array().unwrap().iter().map(|b| b.as_bool().unwrap()));
            let t = env.trees.get_mut(st(s, "tree")).expect("driver: no tree");
            let r = with_tree!(t, t => t.remove_axes(&mask));
            match r {
                Ok(()) => json!({"result": "ok"}),
                Err(e) => json!({"result": "err", "msg": e.to_string()}),
            }
        }
        // ---- distillation
        "layers" => {
            let ls: Vec<Layer> = s["layers"].as_array().unwrap().iter().map(layer_of).collect();
            env.layers.insert(st(s, "name").to_string(), ls);
            Value::Null
        }
        "read_layers" => {
            let path = st(s, "path").to_string();
            match read_layers(&path) {
                Ok(ls) => {
                    let out = Value::Array(ls.iter().map(x_layer).collect());
                    env.layers.insert(st(s, "name").to_string(), ls);
                    json!({"result": "ok", "layers": out})
                }
                Err(e) => json!({"result": "err", "msg": e.to_string()}),
            }
        }
        "from_layers" => {
            let ls = env.layers.get(st(s, "layers")).expect("driver: no layers").clone();
            let pre = match s.get("pre").and_then(|p| p.as_str()) {
                Some(p) => Some(tree_b(env, p).clone()),
                None => None,
            };
            let t = afftree_from_layers(us(s, "dim"), &ls, pre);
            env.trees.insert(st(s, "name").to_string(), AnyTree::B(t));
            Value::Null
        }
        "arch_new" => {
            env.archs.insert(st(s, "name").to_string(), Architecture::new(TensorShape::Flat { in_dim: us(s, "dim") }));
            Value::Null
        }
        "arch_call" => {
            let a = env.archs.get_mut(st(s, "arch")).expect("driver: no arch");
            let r = match st(s, "call") {
                "linear" => a.linear(aff_of(&s["aff"])),
                "relu" => a.relu(),
                "partial_relu" => a.partial_relu(us(s, "idx")),
                "leaky_relu" => a.leaky_relu(num(&s["alpha"])),
                "partial_leaky_relu" => a.partial_leaky_relu(us(s, "idx"), num(&s["alpha"])),
                "hard_tanh" => a.hard_tanh(),
                "partial_hard_tanh" => a.partial_hard_tanh(us(s, "idx")),
                "hard_sigmoid" => a.hard_sigmoid(),
                "partial_hard_sigmoid" => a.partial_hard_sigmoid(us(s, "idx")),
                "argmax" => a.argmax(),
                other => panic!("driver: unknown arch call {other}"),
            };
            let shape = a.current_shape.max_dim();
            let n_ops = a.operators.len();
            match r {
                Ok(()) => json!({"result": "ok", "shape": shape, "n_ops": n_ops}),
                Err(e) => json!({"result": "err", "msg": e.to_string(), "shape": shape, "n_ops": n_ops}),
            }
        }
        "arch_info" => {
            let a = env.archs.get(st(s, "arch")).expect("driver: no arch");
            json!({"input": a.input_shape.max_dim(), "shape": a.current_shape.max_dim(),
                   "ops": Value::Array(a.operators.iter().map(|(l, sh)| json!({"layer": x_layer(l), "shape": sh.max_dim()})).collect())})
        }
        "arch_extract" => {
            let a = env.archs.get(st(s, "arch")).expect("driver: no arch");
            match a.extract_range(us(s, "start"), us(s, "end")) {
                Ok(sub) => {
                    let out = json!({"result": "ok", "input": sub.input_shape.max_dim(), "shape": sub.current_shape.max_dim(), "n_ops": sub.operators.len()});
                    env.archs.insert(st(s, "name").to_string(), sub);
                    out
                }
                Err(e) => json!({"result": "err", "msg": e.to_string()}),
            }
        }
        "arch_distill" => {
            let a = env.archs.get(st(s, "arch")).expect("driver: no arch").clone();
            let dim = a.input_shape.max_dim();
            let t = afftree_from_layers(dim, a.operators(), None);
            env.trees.insert(st(s, "name").to_string(), AnyTree::B(t));
            Value::Null
        }
        // ---- observation
        "export" => {
            let t = env.trees.get(st(s, "tree")).expect("driver: no tree");
            with_tree!(t, t => x_tree(t))
        }
        "eval" => {
            let t = env.trees.get(st(s, "tree")).expect("driver: no tree");
            let pts = s["points"].as_array().unwrap();
            let mut out = Vec::new();
            for p in pts {
                let x = vec1(p);
                let r = catch_unwind(AssertUnwindSafe(|| with_tree!(t, t => eval_tree(t, &x))));
                out.push(match r {
                    Ok(v) => v,
                    Err(_) => json!({"panic": LAST_PANIC.with(|p| p.borrow().clone())}),
                });
            }
            Value::Array(out)
        }
        "eval_decision" => {
            let t = env.trees.get(st(s, "tree")).expect("driver: no tree");
            let node = us(s, "node");
            let pts = s["points"].as_array().unwrap();
            let out: Vec<Value> = pts.iter().map(|p| {
                let x = vec1(p);
                with_tree!(t, t => json!(t.evaluate_decision(t.tree.tree_node(node).unwrap(), &x)))
            }).collect();
            Value::Array(out)
        }
        "polyhedra" => {
            let t = env.trees.get(st(s, "tree")).expect("driver: no tree");
            let skips = usize_list(&s["skips"]);
            let use_iter = s.get("iter").and_then(|b| b.as_bool()).unwrap_or(false);
            with_tree!(t, t => polyhedra_stream(t, &skips, use_iter))
        }
        "traversal" => {
            let t = env.trees.get(st(s, "tree")).expect("driver: no tree");
            let skips = usize_list(&s["skips"]);
            with_tree!(t, t => traversal(t, st(s, "kind"), us(s, "start"), &skips))
        }
        "path_to_node" => {
            let t = env.trees.get(st(s, "tree")).expect("driver: no tree");
            let node = us(s, "node");
            let r = with_tree!(t, t => t.tree.path_to_node(node));
            match r {
                Ok(p) => json!({"result": "ok", "path": p.iter().map(|(i, l)| json!([i, l])).collect::<Vec<_>>()}),
                Err(e) => json!({"result": "err", "msg": e.to_string()}),
            }
        }
        "metrics" => {
            let t = env.trees.get(st(s, "tree")).expect("driver: no tree");
            with_tree!(t, t => {
                let ds = if t.num_terminals() > 0 { let d = t.depth_stats(); json!([hx(d.0), hx(d.1), hx(d.2), hx(d.3)]) } else { Value::Null };
                json!({"len": t.len(), "num_terminals": t.num_terminals(), "depth": t.depth(), "depth_stats": ds,
                       "node_indices": t.tree.node_indices().collect::<Vec<_>>(),
                       "terminal_indices": t.tree.terminal_indices().collect::<Vec<_>>(),
                       "decision_indices": t.tree.decision_indices().collect::<Vec<_>>(),
                       "num_nodes": t.tree.node_indices().map(|i| json!([i, t.tree.num_nodes(i)])).collect::<Vec<_>>(),
                       "edges": t.tree.edge_iter().map(|e| json!([e.source_idx, e.label, e.target_idx])).collect::<Vec<_>>()})
            })
        }
        // ---- LP layer
        "lp_status" => x_status(&poly_of(&s["poly"]).status()),
        "lp_is_feasible" => json!({"feasible": poly_of(&s["poly"]).is_feasible()}),
        "lp_solve" => x_status(&poly_of(&s["poly"]).solve_linprog(vec1(&s["c"]), false)),
        "cheb" => {
            let p = poly_of(&s["poly"]);
            let (q, c) = p.chebyshev_center();
            let sol = q.solve_linprog(c.clone(), false);
            json!({"poly": x_poly(&q), "cost": x_vec1(&c), "solution": x_status(&sol)})
        }
        "redundant" => {
            match poly_of(&s["poly"]).remove_redundant_row_constraints() {
                Ok(q) => json!({"result": "ok", "poly": x_poly(&q)}),
                Err(m) => json!({"result": "err", "msg": m}),
            }
        }
        "mirror_points" => {
            let p = poly_of(&s["poly"]);
            let pts = mat2(&s["points"], None);
            match AffTree::<2>::mirror_points(&p, &pts, us(s, "n")) {
                Some((m, it)) => json!({"found": true, "points": x_mat2(&m), "iterations": it}),
                None => json!({"found": false}),
            }
        }
        "poly_fn" => {
            // f64 instantiation of the generic clean-up routines (replay target for engine L counterexamples)
            let p = poly_of(&s["poly"]);
            let q = match st(s, "fn") {
                "remove_tautologies" => p.remove_tautologies(),
                "remove_duplicate_rows" => p.remove_duplicate_rows(),
                "normalize" => p.normalize(),
                "remove_zero_rows" => p.remove_zero_rows(),
                other => panic!("driver: unknown poly_fn {other}"),
            };
            x_poly(&q)
        }
        "contains" => {
            let p = poly_of(&s["poly"]);
            let out: Vec<Value> = s["points"].as_array().unwrap().iter().map(|x| json!(p.contains(&vec1(x)))).collect();
            Value::Array(out)
        }
        "convert_to" => {
            let p = poly_of(&s["poly"]);
            let r = match st(s, "repr") {
                "MatrixLeqBias" => PolyRepr::MatrixLeqBias,
                "MatrixBiasLeqZero" => PolyRepr::MatrixBiasLeqZero,
                "MatrixGeqBias" => PolyRepr::MatrixGeqBias,
                "MatrixBiasGeqZero" => PolyRepr::MatrixBiasGeqZero,
                other => panic!("driver: unknown repr {other}"),
            };
            x_aff(&p.convert_to(r))
        }
        // ---- hook
        "arm" => {
            let mut plan = HashMap::new();
            if let Some(m) = s.get("plan").and_then(|p| p.as_object()) {
                for (k, v) in m {
                    plan.insert(k.parse::<usize>().unwrap(), fault_of(v));
                }
            }
            verif_hooks::arm(plan, s.get("log").and_then(|b| b.as_bool()).unwrap_or(false));
            Value::Null
        }
        "disarm" => {
            let (n, log) = verif_hooks::disarm();
            let calls: Vec<Value> = log.iter().map(|c| json!({"index": c.index, "poly": x_poly(&c.poly), "c": x_vec1(&c.coeffs),
                "real": x_status(&c.real), "returned": x_status(&c.returned)})).collect();
            json!({"calls": n, "log": calls})
        }
        other => panic!("driver: unknown op {other}"),
    }
}

fn run_case(case: &Value) -> Value {
    let mut env = Env::default();
    let mut outs = Vec::new();
    for s in case["steps"].as_array().unwrap() {
        let r = catch_unwind(AssertUnwindSafe(|| step(&mut env, s)));
        match r {
            Ok(v) => outs.push(json!({"ok": true, "out": v})),
            Err(_) => {
                let msg = LAST_PANIC.with(|p| p.borrow().clone());
                outs.push(json!({"ok": false, "panic": msg}));
            }
        }
    }
    // make sure a fault plan never leaks into the next case on this thread
    let _ = verif_hooks::disarm();
    let mut m = Map::new();
    m.insert("id".to_string(), case["id"].clone());
    m.insert("steps".to_string(), Value::Array(outs));
    Value::Object(m)
}

fn main() {
    let args: Vec<String> = std::env::args().collect();
    if args.len() != 3 {
        eprintln!("usage: drv <cases.json> <results.json>");
        std::process::exit(2);
    }
    std::panic::set_hook(Box::new(|info| {
        let msg = if let Some(s) = info.payload().downcast_ref::<&str>() {
            s.to_string()
        } else if let Some(s) = info.payload().downcast_ref::<String>() {
            s.clone()
        } else {
            "<non-string panic>".to_string()
        };
        let loc = info.location().map(|l| format!("{}:{}", l.file(), l.line())).unwrap_or_default();
        LAST_PANIC.with(|p| *p.borrow_mut() = format!("{msg} @ {loc}"));
    }));

    let text = std::fs::read_to_string(&args[1]).expect("read cases");
    let doc: Value = serde_json::from_str(&text).expect("parse cases");
    let cases = doc["cases"].as_array().expect("cases array").clone();
    let n = cases.len();
    let jobs: usize = std::env::var("VERIF_JOBS").ok().and_then(|s| s.parse().ok()).unwrap_or(16).max(1);
    let next = AtomicUsize::new(0);
    let results: Mutex<Vec<Option<Value>>> = Mutex::new(vec![None; n]);

    std::thread::scope(|sc| {
        for _ in 0..jobs.min(n.max(1)) {
            sc.spawn(|| loop {
                let i = next.fetch_add(1, Ordering::SeqCst);
                if i >= n {
                    break;
                }
                let r = run_case(&cases[i]);
                results.lock().unwrap()[i] = Some(r);
            });
        }
    });

    let results: Vec<Value> = results.into_inner().unwrap().into_iter().map(|r| r.unwrap()).collect();
    let out = json!({"results": results});
    std::fs::write(&args[2], serde_json::to_string(&out).unwrap()).expect("write results");
}

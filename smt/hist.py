"""Operation histories on AffTree<2> (used by C03, C05, C06, C11): generator of case scripts.

A history is a start tree followed by a word over
  compose_f(schema|tree)   un-pruned composition
  compose_t(schema|tree)   pruned composition (on-the-fly infeasible elimination)
  apply_func(aff)
  elim                     infeasible_elimination
  binop(tree)              tree arithmetic (prunes on the fly)
Predicates are drawn from a small per-case pool of hyperplanes so that parallel / coincident / contradictory
conditions recur along paths (infeasible paths by construction).
"""
from fractions import Fraction

import gen
from core import aff_json, hex_of_float

FR = Fraction


class Hist:
    def __init__(self, cid, rng, n=None, max_ops=4, ops=None, total=False, start=None, export_all=False, scale=None):
        self.id = cid
        self.rng = rng
        self.steps = []
        self.checkpoints = []     # dicts: kind, before (result index of export), after (result index), upto (number of steps)
        self.n = n or rng.choice([1, 2, 2, 3])
        self.m = None
        self.total = total
        self.word = []
        pool_n = rng.choice([2, 3])
        self.pool = [gen.nonzero_vec(rng, self.n, pzero=0.3) for _ in range(pool_n)]
        self.bias_pool = [FR(0), FR(1), FR(-1), FR(1, 2)]
        if scale is not None:
            # large un-normalised predicates: the LP's vertices miss half-spaces by more than the 1e-8 containment tolerance
            self.pool = [[scale * v * rng.choice([FR(1), FR(7, 3), FR(11, 7)]) for v in a] for a in self.pool]
            self.bias_pool = [scale * v for v in [FR(0), FR(1), FR(-1), FR(1, 3), FR(5, 7)]]
        self.names = 0
        self.export_all = export_all
        self.exports = []         # (result index of export, label of the operation before it)
        self._start(start)
        if export_all:
            self.exports.append((self.export("t"), "start"))
        self.ops = ops or ["compose_f_schema", "compose_t_schema", "compose_f_tree", "compose_t_tree", "apply_func", "elim", "elim"]
        for _ in range(rng.randint(2, max_ops)):
            self._op(rng.choice(self.ops))

    # ---- helpers
    def fresh(self, p):
        self.names += 1
        return "%s%d" % (p, self.names)

    def export(self, tree="t"):
        self.steps.append({"op": "export", "tree": tree})
        return len(self.steps) - 1

    def dec_gen_in(self, rng, rows, n):
        # decisions over the input space from the pool (sometimes negated / scaled); now and then a constant predicate
        # 0.x <= c, so that an infeasible branch hangs directly below its decision (also below the root)
        if rng.random() < 0.08:
            return ([[FR(0)] * n], [rng.choice([FR(0), FR(1), FR(-1)])])
        a = rng.choice(self.pool)
        s = rng.choice([FR(1), FR(1), FR(-1), FR(2)])
        return ([[s * v for v in a]], [s * rng.choice(self.bias_pool) + (rng.choice([FR(0), FR(0), FR(1)]))])

    def _start(self, start):
        rng = self.rng
        kind = start or rng.choice(["tree", "tree", "aff", "poly"])
        self.m = rng.choice([1, 2, 2, 3])
        if kind == "wedge":
            # a narrow but fat unbounded wedge between two rows of magnitude ~1e8 whose apex is not representable: the LP
            # answers the apex, contains() rejects it (|row| * rounding > 1e-8) and the repair fails - the node stays
            # Indeterminate and must be kept with everything below it
            assert self.n == 2
            S = rng.choice([1e8, 3e7, 2.5e8, 1e6, 1e7])
            eps = rng.choice([1e-2, 2e-2, 5e-3, 0.1, 0.5, 1.0])      # narrow: the vertex cannot be repaired; wide: it can
            ax, ay = rng.choice([(1.0 / 3.0, 3.141592653589793), (-2.0 / 7.0, 2.718281828459045), (10.0 / 3.0, -1.0 / 7.0)])
            upper = ([[FR(-eps * S), FR(S)]], [FR((ay - eps * ax) * S)])          # (y-ay) - eps (x-ax) <= 0
            lower = ([[FR(-eps * S), FR(-S)]], [FR((-ay - eps * ax) * S)])        # -(y-ay) - eps (x-ax) <= 0
            if rng.random() < 0.5:      # swap the axes
                upper = ([[upper[0][0][1], upper[0][0][0]]], upper[1])
                lower = ([[lower[0][0][1], lower[0][0][0]]], lower[1])
            seq = iter([upper, lower] + [self.dec_gen_in(rng, 1, 2) for _ in range(4)])
            inner = rng.choice(["T", "T", ("D", ("T", "T"))])                      # the wedge region: a terminal or a subtree
            other = "T" if (self.total or rng.random() < 0.7) else None
            sh = ("D", (other, ("D", ("T", inner))))
            ts, _ = gen.tree_steps("t", sh, self.n, self.m, rng, dec_gen=lambda r_, rows, n_: next(seq))
            self.steps += ts
            self.word.append("wedge")
        elif kind == "tree":
            d = rng.choice([1, 2, 2, 3])
            sh = gen.random_shape(rng, d, 2, total=self.total or rng.random() < 0.6)
            ts, _ = gen.tree_steps("t", sh, self.n, self.m, rng, dec_gen=self.dec_gen_in)
            self.steps += ts
            self.word.append("tree(%d)" % d)
        elif kind == "aff":
            M = gen.mat(rng, self.m, self.n)
            if self.m >= 2 and rng.random() < 0.5:
                M[1] = [rng.choice([FR(1), FR(-1), FR(2)]) * v for v in M[0]]   # dependent rows
            self.steps.append({"op": "from_aff", "name": "t", "aff": aff_json(M, gen.vec(rng, self.m), self.n)})
            self.word.append("aff")
        else:
            rows = rng.choice([1, 2, 3])
            A = [rng.choice(self.pool) for _ in range(rows)]
            A = [[rng.choice([FR(1), FR(-1)]) * v for v in a] for a in A]
            b = [rng.choice(self.bias_pool) for _ in range(rows)]
            f = aff_json(gen.mat(rng, self.m, self.n), gen.vec(rng, self.m), self.n)
            g = None if (rng.random() < 0.5 and not self.total) else aff_json(gen.mat(rng, self.m, self.n), gen.vec(rng, self.m), self.n)
            self.steps.append({"op": "from_poly", "name": "t", "poly": aff_json(A, b, self.n), "f_true": f, "f_false": g})
            self.word.append("poly(%d,%s)" % (rows, "else" if g else "partial"))

    def _schema_step(self, name):
        rng = self.rng
        kind = rng.choice(["relu", "relu", "leaky", "hardtanh", "threshold", "hardshrink"] + (["argmax", "classchar"] if self.m >= 2 else []))
        row = rng.randrange(self.m)
        st = {"op": "schema", "name": name, "kind": kind, "dim": self.m, "row": row, "params": []}
        if kind == "leaky":
            st["params"] = [hex_of_float(float(rng.choice([FR(1, 2), FR(0), FR(-1)])))]
        elif kind == "hardtanh":
            st["params"] = [hex_of_float(-1.0), hex_of_float(1.0)]
        elif kind == "threshold":
            st["params"] = [hex_of_float(float(rng.choice([FR(0), FR(1)]))), hex_of_float(float(rng.choice([FR(0), FR(2)])))]
        elif kind == "hardshrink":
            st["params"] = [hex_of_float(float(rng.choice([FR(1, 2), FR(1)])))]
        if kind in ("argmax", "classchar"):
            newm = 1
        else:
            newm = self.m
        return st, kind, newm

    def _tree_operand(self, name):
        rng = self.rng
        d = rng.choice([1, 1, 2])
        total = self.total or rng.random() < 0.6
        sh = gen.random_shape(rng, d, 2, total=total)
        newm = rng.choice([1, 2])
        pool = [gen.nonzero_vec(rng, self.m, pzero=0.3) for _ in range(2)]

        def dg(rng_, rows, n):
            if rng_.random() < 0.08:
                return ([[FR(0)] * n], [rng_.choice([FR(0), FR(1), FR(-1)])])
            return ([list(rng_.choice(pool))], [rng_.choice(self.bias_pool)])
        ts, _ = gen.tree_steps(name, sh, self.m, newm, rng, dec_gen=dg)
        if rng.random() < 0.3:
            # the operand carries cached feasibility states of its own (it was simplified before being composed)
            ts = ts + [{"op": "elim", "tree": name}]
        return ts, newm

    def _op(self, op):
        self._op_inner(op)
        if self.export_all:
            self.exports.append((self.export("t"), self.word[-1]))

    def _op_inner(self, op):
        rng = self.rng
        if op == "reduce":
            self.steps.append({"op": "reduce", "tree": "t"})
            self.word.append("reduce")
            return
        if op == "neg":
            self.steps.append({"op": "neg", "name": "t", "src": "t"})
            self.word.append("neg")
            return
        if op == "remove_axes":
            if self.n < 2:
                self.word.append("noop")
                return
            keep = [True] * self.n
            keep[rng.randrange(self.n)] = False
            self.steps.append({"op": "remove_axes", "tree": "t", "mask": keep})
            self.n -= 1
            self.pool = [[v for v, k in zip(a, keep) if k] for a in self.pool]
            self.pool = [a if any(a) else [FR(1)] + [FR(0)] * (self.n - 1) for a in self.pool]
            self.word.append("remove_axes")
            return
        if op.startswith("compose"):
            prune = op.startswith("compose_t")
            name = self.fresh("g")
            if op.endswith("schema"):
                st, kind, newm = self._schema_step(name)
                self.steps.append(st)
                if rng.random() < 0.15:
                    self.steps.append({"op": "elim", "tree": name})
                label = "%s(%s)" % (op[:9], kind)
            else:
                ts, newm = self._tree_operand(name)
                self.steps += ts
                label = "%s(tree)" % op[:9]
            if prune:
                ref = self.fresh("ref")
                self.steps.append({"op": "clone", "name": ref, "src": "t"})
                self.steps.append({"op": "compose", "tree": ref, "other": name, "prune": False})
                b = self.export(ref)
                self.steps.append({"op": "compose", "tree": "t", "other": name, "prune": True, "verbose": rng.random() < 0.15})
                a = self.export("t")
                self.checkpoints.append({"kind": "compose_t", "before": b, "after": a, "upto": len(self.steps), "call": len(self.steps) - 2})
            else:
                self.steps.append({"op": "compose", "tree": "t", "other": name, "prune": False, "verbose": rng.random() < 0.15})
            self.m = newm
            self.word.append(label)
        elif op == "apply_func":
            newm = rng.choice([1, 2, 3])
            M = gen.mat(rng, newm, self.m)
            if newm >= 2 and rng.random() < 0.4:
                M[1] = [rng.choice([FR(1), FR(-1), FR(2)]) * v for v in M[0]]
            self.steps.append({"op": "apply_func", "tree": "t", "aff": aff_json(M, gen.vec(rng, newm), self.m)})
            self.m = newm
            self.word.append("apply_func")
        elif op == "elim":
            b = self.export("t")
            self.steps.append({"op": "elim", "tree": "t"})
            a = self.export("t")
            self.checkpoints.append({"kind": "elim", "before": b, "after": a, "upto": len(self.steps), "call": len(self.steps) - 2})
            self.word.append("elim")
        elif op.startswith("binop"):
            name = self.fresh("b")
            d = rng.choice([0, 1, 1, 2])
            sh = gen.random_shape(rng, d, 2, total=self.total or rng.random() < 0.6)
            ts, _ = gen.tree_steps(name, sh, self.n, self.m, rng, dec_gen=self.dec_gen_in)
            self.steps += ts
            bop = rng.choice(["add", "sub", "mul"])
            ea = self.export("t")
            eb = self.export(name)
            self.steps.append({"op": "binop", "name": "t", "a": "t", "b": name, "binop": bop, "variant": rng.choice(["rr", "or", "oo", "ro"])})
            a = self.export("t")
            self.checkpoints.append({"kind": "binop", "op": bop, "a": ea, "b": eb, "after": a, "upto": len(self.steps), "call": len(self.steps) - 2})
            self.word.append("binop(%s)" % bop)
        else:
            raise ValueError(op)

    def case(self):
        return {"id": self.id, "steps": self.steps, "checkpoints": self.checkpoints, "exports": self.exports,
                "meta": {"word": self.word, "in_dim": self.n}}

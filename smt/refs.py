"""Reference semantics written from the property statements (textbook definitions), as exact piece lists.

Nothing here is derived from the library source: these are the definitions the library is checked against.
Strict/non-strict sides follow the definitions: ReLU max(0,x); leaky: x if x > 0 else a*x; hard tanh = clamp;
hard shrink: x if |x| > lambda else 0; hard sigmoid: clamp(x/6 + 1/2, 0, 1); threshold: x if x > theta else v;
argmax: first index of a maximal component; class characterisation: 1 iff the component is maximal;
inf_norm: 1 iff all components within the bounds.
"""
from fractions import Fraction

from core import Aff, Con, Piece

ZERO, ONE = Fraction(0), Fraction(1)


def unit(n, i, s=ONE):
    v = [ZERO] * n
    v[i] = s
    return v


def ident(n):
    return Aff.identity(n)


def with_row(n, row, coef, bias):
    """identity except component `row` := coef * x_row + bias"""
    a = Aff.identity(n)
    M = [list(r) for r in a.M]
    c = list(a.c)
    M[row][row] = coef
    c[row] = bias
    return Aff(M, c, n)


def gt(n, i, b):      # x_i > b
    return Con(unit(n, i), b, True)


def le(n, i, b):      # x_i <= b
    return Con(unit(n, i), b, False)


def lt(n, i, b):      # x_i < b  <=> -x_i > -b
    return Con(unit(n, i, -ONE), -b, True)


def ge(n, i, b):      # x_i >= b <=> -x_i <= -b
    return Con(unit(n, i, -ONE), -b, False)


def relu(n, row):
    return [Piece([gt(n, row, ZERO)], ident(n)), Piece([le(n, row, ZERO)], with_row(n, row, ZERO, ZERO))]


def leaky(n, row, alpha):
    return [Piece([gt(n, row, ZERO)], ident(n)), Piece([le(n, row, ZERO)], with_row(n, row, alpha, ZERO))]


def clamp(n, row, lo, hi):
    """min(max(x, lo), hi) for lo <= hi"""
    return [Piece([gt(n, row, hi)], with_row(n, row, ZERO, hi)),
            Piece([le(n, row, hi), lt(n, row, lo)], with_row(n, row, ZERO, lo)),
            Piece([le(n, row, hi), ge(n, row, lo)], ident(n))]


def hard_shrink(n, row, lam):
    """x if |x| > lam else 0"""
    return [Piece([gt(n, row, lam)], ident(n)),
            Piece([le(n, row, lam), lt(n, row, -lam)], ident(n)),
            Piece([le(n, row, lam), ge(n, row, -lam)], with_row(n, row, ZERO, ZERO))]


def hard_sigmoid(n, row):
    """clamp(x/6 + 1/2, 0, 1)"""
    return [Piece([gt(n, row, Fraction(3))], with_row(n, row, ZERO, ONE)),
            Piece([le(n, row, Fraction(3)), lt(n, row, Fraction(-3))], with_row(n, row, ZERO, ZERO)),
            Piece([le(n, row, Fraction(3)), ge(n, row, Fraction(-3))], with_row(n, row, Fraction(1, 6), Fraction(1, 2)))]


def threshold(n, row, theta, value):
    """x if x > theta else value"""
    return [Piece([gt(n, row, theta)], ident(n)), Piece([le(n, row, theta)], with_row(n, row, ZERO, value))]


def const(n, v):
    return Aff([[ZERO] * n], [Fraction(v)], n)


def diff_con(n, i, j, strict):
    """x_i - x_j > 0 (strict) or x_i - x_j <= 0"""
    a = [ZERO] * n
    a[i] += ONE
    a[j] -= ONE
    return Con(a, ZERO, strict)


def argmax(n):
    """first index i with x_i maximal: x_i > x_j for j < i and x_i >= x_j for j > i"""
    out = []
    for i in range(n):
        conds = [diff_con(n, i, j, True) for j in range(i)] + [diff_con(n, j, i, False) for j in range(i + 1, n)]
        out.append(Piece(conds, const(n, i)))
    return out


def class_char(n, c):
    """1 iff x_c >= x_j for all j, else 0 (as a partition: first j that beats c)"""
    others = [j for j in range(n) if j != c]
    out = []
    for k, j in enumerate(others):
        conds = [diff_con(n, jj, c, False) for jj in others[:k]] + [diff_con(n, j, c, True)]
        out.append(Piece(conds, const(n, 0)))
    out.append(Piece([diff_con(n, j, c, False) for j in others], const(n, 1)))
    return out


def inf_norm(n, lo, hi):
    """1 iff all components within [lo, hi] (either bound may be None), else 0"""
    tests = []
    if lo is not None:
        tests += [(ge(n, i, lo), lt(n, i, lo)) for i in range(n)]
    if hi is not None:
        tests += [(le(n, i, hi), gt(n, i, hi)) for i in range(n)]
    out = []
    for k, (ok, bad) in enumerate(tests):
        out.append(Piece([t[0] for t in tests[:k]] + [bad], const(n, 0)))
    out.append(Piece([t[0] for t in tests], const(n, 1)))
    return out


def from_poly(A, b, f_true, f_false):
    """inside {A x <= b} -> f_true, else f_false (None = undefined)"""
    out = []
    for i in range(len(A)):
        conds = [Con(A[j], b[j], False) for j in range(i)] + [Con(A[i], b[i], True)]
        out.append(Piece(conds, f_false))
    out.append(Piece([Con(A[j], b[j], False) for j in range(len(A))], f_true))
    return out


def total(aff):
    return [Piece([], aff)]


def then(pieces_f, pieces_g):
    """reference of g after f (both piece lists, g over f's output space)"""
    from core import compose_pieces, pieces_after
    return compose_pieces(pieces_f, lambda aff: pieces_after(pieces_g, aff))


def lift(pa, pb, op):
    """point-wise lifting of a coefficient-wise affine operator to two piece lists over the same input"""
    out = []
    for p in pa:
        for q in pb:
            if p.val is None or q.val is None:
                val = None
            else:
                val = aff_op(p.val, q.val, op)
            out.append(Piece(p.conds + q.conds, val, tag=(p.node, q.node)))
    return out


def aff_op(a, b, op):
    f = {"add": lambda x, y: x + y, "sub": lambda x, y: x - y, "mul": lambda x, y: x * y, "div": lambda x, y: x / y}[op]
    if a.outdim != b.outdim or a.n != b.n:
        raise ValueError("shape mismatch")
    return Aff([[f(x, y) for x, y in zip(r, s)] for r, s in zip(a.M, b.M)], [f(x, y) for x, y in zip(a.c, b.c)], a.n)

"""C07 Tree arithmetic is the point-wise lifting of affine arithmetic (DESIGN 5, C07)."""
from fractions import Fraction

import gen
import refs
from core import Tree, Aff, Piece, aff_json, TAU, aff_from_json
from fw import Check, Target, get_convention, run_main, run_target_check, step_panics

FUNCTIONS = ["src/pwl/impl_ops.rs", "src/pwl/impl_composition.rs", "src/linalg/impl_ops.rs", "src/pwl/impl_infeasible_elim.rs"]
FR = Fraction
OPS = ["add", "sub", "mul", "div"]


def nzc(rng):
    while True:
        v = gen.coef(rng, pzero=0)
        if v != 0:
            return v


def nz_term(rng, m, n):
    return ([[nzc(rng) for _ in range(n)] for _ in range(m)], [nzc(rng) for _ in range(m)])


def make_cases(chk):
    rng = chk.rng
    quick = chk.tier == "quick"
    cases = []
    shapes = gen.shapes_upto(2, 2)
    N = 320 if quick else 30000
    for i in range(N):
        n, m = rng.choice([1, 2, 2, 3]), rng.choice([1, 2, 2])
        op = OPS[i % 4]
        fam = (i // 4) % 3
        k = 4 if (i % 17 == 0) else 2
        shp = gen.shapes_upto(1, 4) if k == 4 else shapes
        pool = [gen.nonzero_vec(rng, n, pzero=0.3) for _ in range(3)]

        def dg(rng_, rows, n_, pool=pool):
            return ([list(rng_.choice(pool)) for _ in range(rows)], [rng_.choice([FR(0), FR(1), FR(-1), FR(1, 2)]) for _ in range(rows)])
        tg = nz_term if op == "div" else None
        sa = rng.choice(shp)
        if k == 2 and fam != 0 and rng.random() < 0.5:
            # unary / tree-affine operators on an arena with holes and reused slots (live terminals at indices >= len())
            ta, _ = gen.tree_steps_scrambled("a", sa, n, m, rng, dec_gen=dg, term_gen=tg, p_dummy=0.8)
        else:
            ta, _ = gen.tree_steps("a", sa, n, m, rng, k=k, dec_gen=dg, term_gen=tg)
        steps = list(ta)
        meta = {"op": op, "k": k, "in_dim": n, "fam": ["tree-tree", "tree-aff", "neg"][fam], "sa": repr(sa)}
        if fam == 0:
            sb = rng.choice(shp)
            tb, _ = gen.tree_steps("b", sb, n, m, rng, k=k, dec_gen=dg, term_gen=tg)
            variant = ["rr", "or", "oo", "ro"][(i // 12) % 4]
            pre = []
            if rng.random() < 0.3:
                pre.append({"op": "elim", "tree": "a"})      # the left operand carries cached witnesses
            if rng.random() < 0.15:
                pre.append({"op": "elim", "tree": "b"})
            tb = tb + pre
            steps += tb + [{"op": "export", "tree": "a"}, {"op": "export", "tree": "b"},
                           {"op": "binop", "name": "r", "a": "a", "b": "b", "binop": op, "variant": variant},
                           {"op": "export", "tree": "r"}, {"op": "export", "tree": "a"}, {"op": "export", "tree": "b"}]
            meta.update({"variant": variant, "sb": repr(sb)})
            base = len(ta) + len(tb)
        elif fam == 1:
            M, c = nz_term(rng, m, n) if op == "div" else (gen.mat(rng, m, n), gen.vec(rng, m))
            variant = ["tf_o", "tf_r", "ft_o", "ft_r"][(i // 12) % 4]
            steps += [{"op": "export", "tree": "a"},
                      {"op": "scalar_op", "name": "r", "tree": "a", "aff": aff_json(M, c, n), "binop": op, "variant": variant},
                      {"op": "export", "tree": "r"}]
            meta.update({"variant": variant, "f": aff_json(M, c, n)})
            base = len(ta)
        else:
            steps += [{"op": "export", "tree": "a"}, {"op": "neg", "name": "r", "src": "a"}, {"op": "export", "tree": "r"}]
            meta["op"] = "neg"
            base = len(ta)
        cases.append({"id": "a%d" % i, "steps": steps, "base": base, "meta": meta})
    return cases


def build_targets(case, res, conv):
    meta, base = case["meta"], case["base"]
    ps = step_panics(res)
    if ps:
        i, m = ps[0]
        sig = "panic"
        if meta["k"] == 4 and meta["fam"] == "tree-tree" and "label should be 0 or 1" in m:
            sig = "tree-tree/K4-pruning/binary-labels-assumed"
        return [], 0, [(sig, "step %d (%s %s) panics: %s" % (i, meta["fam"], meta["op"], m), "panic")]
    findings = []
    n = meta["in_dim"]
    eps = box = None
    if meta["op"] == "div":
        eps, box = FR(1, 10**9), 1 << 10
    if meta["fam"] == "tree-tree":
        pa = Tree(res[base]["out"]).pieces(conv)
        pb = Tree(res[base + 1]["out"]).pieces(conv)
        ref = refs.lift(pa, pb, meta["op"])
        out = res[base + 3]["out"]
        if meta["variant"] in ("rr", "ro", "or") and False:
            pass
        # borrowed operands must be unchanged
        if res[base + 4]["out"] != res[base]["out"] or res[base + 5]["out"] != res[base + 1]["out"]:
            findings.append(("operand-changed", "a borrowed/cloned operand was modified by the operator", "structural"))
        errs = Tree(out).structure_errors() + Tree(out).dim_errors()
        if errs:
            findings.append(("ill-formed", "result not well-formed: %s" % errs[:2], "structural"))
            return [], n, findings
        return [Target("a %s b (%s)" % (meta["op"], meta["variant"]), "r", out, base + 3, ref, eps=eps, box=box, tighten=TAU,
                       sig=("tree-tree/K4-pruning" if meta["k"] == 4 else "tree-tree/" + meta["op"]))], n, findings
    pa = Tree(res[base]["out"]).pieces(conv)
    out = res[base + 2]["out"]
    if meta["fam"] == "tree-aff":
        M, c = aff_from_json(meta["f"])
        f = Aff(M, c, n)
        tree_left = meta["variant"].startswith("tf")
        ref = [Piece(p.conds, None if p.val is None else (refs.aff_op(p.val, f, meta["op"]) if tree_left else refs.aff_op(f, p.val, meta["op"])))
               for p in pa]
        return [Target("%s %s (%s)" % ("tree op f" if tree_left else "f op tree", meta["op"], meta["variant"]), "r", out, base + 2, ref,
                       eps=eps, box=box, sig="tree-aff/" + meta["op"] + "/" + meta["variant"][:2])], n, findings
    ref = [Piece(p.conds, None if p.val is None else Aff([[-v for v in r] for r in p.val.M], [-v for v in p.val.c], n)) for p in pa]
    return [Target("neg", "r", out, base + 2, ref, sig="neg")], n, findings


def describe(case, t, real, exp, xf):
    # K=4 tree-tree arithmetic: the on-the-fly pruning reads labels as binary (0 = all rows negated, 1 = all rows kept), so it
    # either panics on labels 2/3 or prunes with a wrong path polytope; one role for both symptoms
    if case["meta"]["k"] == 4 and case["meta"]["fam"] == "tree-tree":
        return "binary-labels-assumed"
    return None


def main():
    chk = Check("C07", "translation_validation", FUNCTIONS)
    conv = get_convention(chk)
    cases = make_cases(chk)
    for c in cases:
        chk.count("fam_" + c["meta"]["fam"])
        chk.count("op_" + c["meta"]["op"])
    run_target_check(chk, cases, "c07", "C07", conv, tag="c07", describe=describe)
    chk.cov["rule"] = ("operand pairs over shapes with <= 2 decisions (K=2) / <= 1 (K=4, every 17th case), total and partial, predicates "
                       "from a shared hyperplane pool (so pruning on the fly has something to prune); operators + - * / in rotation, "
                       "ownership variants &a+&b, a+&b, a+b, &a+b and tree+f, tree+&f, f+tree, &f+tree in rotation, negation; "
                       "divisors without zero coefficients; non-trivial = result has more than one piece")
    chk.cov["explanation"] = ("the real operator builds the result; the reference is the point-wise lifting computed from the exported "
                              "operands by the encoder (coefficient-wise operator on the two reached terminal maps, defined iff both "
                              "are); z3 decides per reference piece (tightened by tau for the pruning tree-tree forms) that no input "
                              "exists where the result differs; division compared up to 1e-9 on |x|<=1024 because quotients are not dyadic")
    chk.cov["bounds"] = {"decisions_per_operand": 2, "dims": "n<=3, m<=2", "K": [2, 4]}
    chk.assumptions += ["inputs: all reals (solver); operands: enumerated shapes + seeded lattice coefficients",
                        "a zero divisor coefficient is outside the claim (from_mats rejects non-finite values: documented panic)"]
    return chk.finish()


if __name__ == "__main__":
    run_main(main)

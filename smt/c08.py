"""C08 reduce preserves the function and only merges identical siblings (DESIGN 5, C08)."""
from fractions import Fraction

import gen
from core import Tree, aff_json
from fw import Check, Target, get_convention, run_main, run_target_check, step_panics

FUNCTIONS = ["src/pwl/impl_reduction.rs", "src/tree/graph.rs", "src/tree/iter.rs", "src/linalg/affine.rs"]
FR = Fraction


def make_cases(chk):
    rng = chk.rng
    quick = chk.tier == "quick"
    cases = []
    shapes = [s for s in gen.shapes_upto(3, 2)] + [gen.full_shape(2), gen.full_shape(3)]
    for i in range(300 if quick else 30000):
        if i < len(shapes) * (1 if quick else 3):
            sh = shapes[i % len(shapes)]
        else:
            sh = gen.random_shape(rng, rng.choice([2, 3, 4, 5]), 2, total=rng.random() < 0.7)
        n, m = rng.choice([1, 2, 2, 3]), rng.choice([1, 2, 2, 3])
        # terminal pool: few distinct functions + near-copies (bias only / one coefficient / sign of zero)
        base = (gen.mat(rng, m, n), gen.vec(rng, m))
        pool = [base, base, base]
        b2 = (base[0], [base[1][0] + 1] + base[1][1:])
        m2 = ([list(r) for r in base[0]], list(base[1]))
        m2[0][rng.randrange(m)][rng.randrange(n)] += FR(1, 4)
        pool += [b2, m2, (gen.mat(rng, m, n), gen.vec(rng, m))]
        negzero = ([[(-0.0 if v == 0 else v) for v in r] for r in base[0]], [(-0.0 if v == 0 else v) for v in base[1]])
        pool.append(negzero)
        # a copy that differs from the base by less than machine epsilon in one entry (still a different function)
        tiny = ([list(r) for r in base[0]], list(base[1]))
        if i % 2:
            tiny[1][0] = tiny[1][0] + FR(3, 10**17) if tiny[1][0] == 0 else tiny[1][0] * (1 + FR(1, 2**52))
        else:
            tiny[0][0][0] = FR(1, 10**17) if tiny[0][0][0] == 0 else tiny[0][0][0] * (1 + FR(1, 2**52))
        pool.append(tiny)
        dec_gen = None
        if i % 5 == 0:
            # one-row terminals drawn from the same pool as the decision predicates: a terminal may equal its sibling
            # decision's predicate (x0 vs relu(x0))
            m = 1
            shared = [(gen.nonzero_vec(rng, n), gen.coef(rng)) for _ in range(2)]
            pool = [([list(a)], [b]) for a, b in shared] + [(gen.mat(rng, 1, n), gen.vec(rng, 1))]

            def dec_gen(rng_, rows, n_, shared=shared):
                a, b = rng_.choice(shared)
                return ([list(a)], [b])

        if i % 7 == 3:
            # mostly one function: whole subtrees (depth >= 2) collapse, merges create new mergeable decisions on the way up
            pool = [pool[0]] * 7 + [pool[-1]]
            sh = rng.choice([gen.full_shape(3), ("D", (gen.full_shape(2), "T")), ("D", ("T", gen.full_shape(2))),
                             ("D", (gen.full_shape(2), gen.full_shape(2))), ("D", (("D", (gen.full_shape(2), "T")), "T"))])

        def tg(rng_, m_, n_, pool=pool):
            return rng_.choice(pool)
        scr = rng.random() < 0.6 or i % 7 == 3      # cascades always also on arenas whose index order is not top-down
        if scr:
            ts, _ = gen.tree_steps_scrambled("t", sh, n, m, rng, term_gen=tg, dec_gen=dec_gen, layout_f=0.3,
                                             p_dummy=0.95 if i % 7 == 3 else 0.5)
        else:
            ts, _ = gen.tree_steps("t", sh, n, m, rng, term_gen=tg, dec_gen=dec_gen, order=rng.choice(["dfs", "bfs"]))
        if i % 29 == 1:
            # built by hand: a freed slot is reused so that the lower decision C (index 1) sits below the higher-indexed P (index 2);
            # C collapses first, which makes P collapse - a sweep that is not bottom-up in the *tree* misses P
            f_ = (gen.mat(rng, m, n), gen.vec(rng, m))
            g_ = (gen.mat(rng, m, n), gen.vec(rng, m + 0)[:m])
            dec = lambda: aff_json([gen.nonzero_vec(rng, n)], [gen.coef(rng)], n)
            A = lambda t: aff_json(t[0], t[1], n)
            ts = [{"op": "from_aff", "name": "t", "k": 2, "aff": dec()},
                  {"op": "add_child", "tree": "t", "parent": 0, "label": 0, "aff": A(g_)},       # 1: dummy
                  {"op": "add_child", "tree": "t", "parent": 0, "label": 1, "aff": dec()},       # 2: P
                  {"op": "remove_child", "tree": "t", "parent": 0, "label": 0},                  # frees 1
                  {"op": "add_child", "tree": "t", "parent": 2, "label": rng.choice([0, 1]), "aff": dec()}]   # 1: C below P
            lc = ts[-1]["label"]
            ts += [{"op": "add_child", "tree": "t", "parent": 1, "label": 0, "aff": A(f_)},
                   {"op": "add_child", "tree": "t", "parent": 1, "label": 1, "aff": A(f_)},
                   {"op": "add_child", "tree": "t", "parent": 2, "label": 1 - lc, "aff": A(f_)},
                   {"op": "add_child", "tree": "t", "parent": 0, "label": 0, "aff": A(g_)}]
            sh, scr = "hand-built reuse cascade", True
        if i % 4 == 2:
            ts = ts + [{"op": "elim", "tree": "t"}]      # equal siblings that carry different cached feasibility states
        steps = ts + [{"op": "export", "tree": "t"}, {"op": "reduce", "tree": "t"}, {"op": "export", "tree": "t"},
                      {"op": "reduce", "tree": "t"}, {"op": "export", "tree": "t"}]
        cases.append({"id": "r%d" % i, "steps": steps, "nt": len(ts),
                      "meta": {"shape": repr(sh), "dims": [n, m], "scrambled": scr, "in_dim": n}})
    return cases


def strip(tj):
    return [(n["idx"], n["leaf"], n["parent"], n["children"], n["mat"], n["bias"]) for n in tj["nodes"]]


def build_targets(case, res, conv):
    findings = [("panic", "step %d panics: %s" % (i, m), "panic") for i, m in step_panics(res)]
    if findings:
        return [], 0, findings
    nt = case["nt"]
    bj, aj, a2j = res[nt]["out"], res[nt + 2]["out"], res[nt + 4]["out"]
    B, A = Tree(bj), Tree(aj)
    if A.len > B.len:
        findings.append(("node-count", "reduce increased the number of nodes %d -> %d" % (B.len, A.len), "structural"))
    if strip(a2j) != strip(aj):
        findings.append(("not-idempotent", "a second reduce changes the tree (%d -> %d nodes)" % (A.len, Tree(a2j).len), "structural"))
    errs = A.structure_errors()
    if errs:
        findings.append(("ill-formed", "result not well-formed: %s" % errs[:2], "structural"))
    for i in A.decisions():
        nd = A.nodes[i]
        if i == A.root:
            continue
        c0, c1 = nd.children
        if c0 is not None and c1 is not None and A.nodes[c0].leaf and A.nodes[c1].leaf:
            if A.aff(c0).key() == A.aff(c1).key():
                findings.append(("identical-siblings-left", "decision %d below the root keeps two identical terminal children" % i, "structural"))
    for i in B.decisions():
        nd = B.nodes[i]
        c0, c1 = nd.children
        if c0 is not None and c1 is not None and B.nodes[c0].leaf and B.nodes[c1].leaf:
            if B.aff(c0).key() != B.aff(c1).key() and i not in A.nodes:
                findings.append(("differing-siblings-merged", "decision %d with differing terminal children was removed" % i, "structural"))
    t = Target("reduce", "t", aj, nt + 2, B.pieces(conv), sig="reduce")
    return [t], B.in_dim, findings


def main():
    chk = Check("C08", "translation_validation", FUNCTIONS)
    conv = get_convention(chk)
    cases = make_cases(chk)
    run_target_check(chk, cases, "c08", "C08", conv, tag="c08")
    chk.cov["rule"] = ("every shape with <= 3 decisions and full shapes of depth 2,3, then seeded shapes with <= 5 decisions; terminals "
                       "from a pool of identical functions and near-copies (bias only, one coefficient, sign of zero); 60% with "
                       "scrambled arena layout (slots reused, child index < parent index) and 30% column-major matrices; "
                       "non-trivial = more than one piece")
    chk.cov["explanation"] = ("the real reduce runs; z3 decides per piece that reduce(t) and t agree for all inputs (definedness "
                              "included, exact); structural clauses (node count, idempotence, no identical terminal siblings left "
                              "below the root, differing siblings kept) are read off the exported trees")
    chk.cov["bounds"] = {"decisions": 5, "dims": "<=3"}
    chk.assumptions += ["inputs: all reals (solver); trees: enumerated shapes + seeded terminals"]
    return chk.finish()


if __name__ == "__main__":
    run_main(main)

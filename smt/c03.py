"""C03 Pruning never changes the represented (partial) function (DESIGN 5, C03)."""
from fractions import Fraction

import z3

import gen
import refs
from core import Q, Tree, TAU, zclosed, run_driver, hex_of_float, Stats
from fractions import Fraction as FR
from fw import Check, Target, get_convention, run_main, run_target_check, step_panics
from hist import Hist

FUNCTIONS = ["src/pwl/impl_infeasible_elim.rs", "src/pwl/impl_composition.rs", "src/pwl/impl_ops.rs", "src/pwl/iter.rs",
             "src/tree/graph.rs", "src/linalg/polyhedron.rs"]


def make_cases(chk):
    rng = chk.rng
    quick = chk.tier == "quick"
    cases = []
    n = 260 if quick else 20000
    for i in range(n):
        fam = i % 4
        # every 7th history uses predicates of magnitude 1e3..1e6 next to unit-size ones (function preservation must not
        # depend on the scale of a row; margins are geometric: tau * |a|_1)
        scale = rng.choice([FR(10**3), FR(10**5) * FR(7, 3), FR(10**6)]) if i % 7 == 3 else None
        if i % 13 == 5:
            # an Indeterminate node with a fat region (see Hist "wedge"): it must survive with its subtree
            h = Hist("h%d" % i, rng, n=2, max_ops=3, ops=["elim", "elim", "compose_f_schema", "apply_func", "compose_t_schema"], start="wedge")
            if not any(c["kind"] == "elim" for c in h.checkpoints):
                h._op("elim")
            cases.append(h.case())
            continue
        if fam == 0:      # elimination-centred histories
            h = Hist("h%d" % i, rng, max_ops=4, ops=["compose_f_schema", "compose_f_schema", "compose_f_tree", "apply_func", "elim", "elim"], scale=scale)
            if not any(c["kind"] == "elim" for c in h.checkpoints):
                h._op("elim")
        elif fam == 1:    # pruned composition against un-pruned composition
            h = Hist("h%d" % i, rng, max_ops=4, ops=["compose_t_schema", "compose_t_tree", "compose_f_schema", "elim", "apply_func"], scale=scale)
            if not any(c["kind"] == "compose_t" for c in h.checkpoints):
                h._op("compose_t_schema")
        elif fam == 2:    # arithmetic (prunes on the fly), also on trees that carry caches
            h = Hist("h%d" % i, rng, max_ops=3, ops=["compose_f_schema", "elim", "binop", "binop", "apply_func"])
            if not any(c["kind"] == "binop" for c in h.checkpoints):
                h._op("binop")
        else:             # everything mixed
            h = Hist("h%d" % i, rng, max_ops=4, ops=["compose_f_schema", "compose_t_schema", "compose_f_tree", "compose_t_tree",
                                                     "apply_func", "elim", "elim", "binop"])
            if not h.checkpoints:
                h._op("elim")
        cases.append(h.case())
    return cases


def build_targets(case, res, conv):
    targets, findings = [], []
    first_panic = None
    for i, r in enumerate(res):
        if not r["ok"]:
            first_panic = (i, r["panic"])
            break
    for cp in case["checkpoints"]:
        if first_panic is not None and first_panic[0] <= cp["after"]:
            if first_panic[0] == cp["call"]:
                findings.append(("%s/panic" % cp["kind"], "step %d (%s) panics: %s" % (first_panic[0], cp["kind"], first_panic[1]), "panic"))
            break
        after = res[cp["after"]]["out"]
        if cp["kind"] in ("elim", "compose_t"):
            ref = Tree(res[cp["before"]]["out"]).pieces(conv)
        else:
            pa = Tree(res[cp["a"]]["out"]).pieces(conv)
            pb = Tree(res[cp["b"]]["out"]).pieces(conv)
            ref = refs.lift(pa, pb, cp["op"])
        targets.append(Target("%s@%d" % (cp["kind"], cp["call"]), "t", after, cp["upto"], ref, tighten=TAU, sig=cp["kind"]))
        errs = Tree(after).structure_errors() + Tree(after).dim_errors()
        if errs:
            findings.append(("%s/ill-formed" % cp["kind"], "result not well-formed: %s" % errs[:2], "structural"))
            break
    return targets, case["meta"]["in_dim"], findings


def removed_subtree_obligations(chk, cases, ret, conv):
    """a node (with all its descendants) may disappear only if its closed path region is empty up to tau"""
    pending = []
    for case in cases:
        if case["id"] not in ret:
            continue
        _, res, _ = ret[case["id"]]
        for cp in case["checkpoints"]:
            if cp["kind"] != "elim" or not all(r["ok"] for r in res[:cp["after"] + 1]):
                continue
            B, A = Tree(res[cp["before"]]["out"]), Tree(res[cp["after"]]["out"])
            gone = set(B.nodes) - set(A.nodes)

            def survivors(i):
                return any(c is not None and (c in A.nodes or survivors(c)) for c in B.nodes[i].children)
            dead = {i for i in gone if not survivors(i)}
            roots = [i for i in dead if B.nodes[i].parent not in dead]
            q = Q(B.in_dim)
            for i in roots:
                conds, _ = B.path_conds(i, conv)
                asserts = [zclosed(c.closed(-TAU), q.xs) for c in conds]
                r, _ = q.check(asserts, want_model=False, sample_tag="C03 removed node region empty up to tau")
                if r == "unsat":
                    chk.oblige(True)
                elif r == "unknown":
                    chk.undecide("%s removed node %d" % (case["id"], i), "solver unknown")
                else:
                    m, ok = q.witness_f64(asserts)
                    pending.append((case, cp, i, m))
            chk.stats.add(q.stats)
    if not pending:
        return
    rcases = [{"id": "r%d" % k, "steps": case["steps"][:cp["call"]] + [
        {"op": "eval", "tree": "t", "points": [[hex_of_float(float(v)) for v in m]]}]} for k, (case, cp, i, m) in enumerate(pending)]
    rres = run_driver(rcases, tag="c03r")
    for k, (case, cp, i, m) in enumerate(pending):
        B = Tree(rres["r%d" % k][cp["before"]]["out"])
        real = rres["r%d" % k][-1]["out"][0]
        # natively: the point is routed through node i before elimination
        cur, route = B.root, [B.root]
        for l in real.get("labels", []):
            cur = B.nodes[cur].children[l]
            if cur is None:
                break
            route.append(cur)
        if "labels" not in real or (i not in route and not (real.get("defined") is False)):
            # undefined inputs: follow the labels the encoder predicts instead
            pass
        if i in route:
            chk.report("C03/elim/feasible-region-removed",
                       "%s: node %d removed by infeasible_elimination although x=%s (inside its path region with margin 1e-6) is routed through it"
                       % (case["id"], i, [float(v) for v in m]),
                       {"kind": "eval", "case": {"id": case["id"], "steps": case["steps"][:cp["upto"]]}, "tree": "t",
                        "point": [hex_of_float(float(v)) for v in m], "expected": None, "meta": case["meta"], "removed_node": i})
        else:
            chk.unreplayed.append("%s: removed node %d, witness not routed through it natively" % (case["id"], i))


def describe(case, t, real, exp, xf):
    # role of the failure: reached terminal was a decision before the pruning step?
    return None


def main():
    chk = Check("C03", "translation_validation", FUNCTIONS)
    conv = get_convention(chk)
    cases = make_cases(chk)
    ret = run_target_check(chk, cases, "c03", "C03", conv, tag="c03", describe=describe)
    removed_subtree_obligations(chk, cases, ret, conv)
    kinds = {}
    for c in cases:
        for cp in c["checkpoints"]:
            kinds[cp["kind"]] = kinds.get(cp["kind"], 0) + 1
    chk.cov["checkpoints"] = kinds
    chk.cov["rule"] = ("seeded histories of <= 4 operations over {compose (pruned / un-pruned) with schema trees or generated trees, "
                       "apply_func, infeasible_elimination, tree + - *} from generated trees, affine maps with dependent rows and "
                       "from_poly (with / without else branch); predicates from a small hyperplane pool so that parallel, coincident "
                       "and contradictory conditions recur; non-trivial = more pieces than targets")
    chk.cov["explanation"] = ("each pruning step is compared with its un-pruned counterpart (tree before elimination / compose::<false> "
                              "on a clone / point-wise lifting computed by the encoder): z3 decides for every piece of the reference, "
                              "tightened by tau=1e-6, that no input exists where the pruned tree differs in definedness or value; "
                              "and that every node removed together with all its descendants has an empty path region up to tau")
    chk.cov["bounds"] = {"history_length": 4, "decisions_per_operand": 3, "dims": "<=3"}
    chk.assumptions += ["inputs: all reals (solver); histories: seeded generator",
                        "LP tolerance policy: regions thinner than tau=1e-6 may disappear (the property's own carve-out)"]
    return chk.finish()


if __name__ == "__main__":
    run_main(main)

"""C11 Pruning is fail-safe when the LP solver misbehaves (DESIGN 5, C11) - needs the cfg(affinitree_verif) hook."""
import itertools
from fractions import Fraction

import gen
import refs
from core import Q, Tree, TAU, CONTAINS_TOL, zclosed, run_driver, hex_of_float, dot
from fw import Check, Target, get_convention, run_main, run_target_check, step_panics
from hist import Hist

FUNCTIONS = ["src/pwl/impl_infeasible_elim.rs", "src/linalg/polyhedron.rs", "src/pwl/impl_composition.rs", "src/pwl/impl_ops.rs",
             "src/verif_hooks.rs"]
FR = Fraction
SLACK = CONTAINS_TOL * (1 + FR(1, 10**6))
KINDS = ["error", "unbounded", "perturb", "far"]


def fault(kind, n):
    if kind == "perturb":
        return {"kind": "perturb", "delta": [hex_of_float(1e-3)] + [hex_of_float(0.0)] * (n - 1)}
    if kind == "far":
        return {"kind": "far", "value": hex_of_float(1e6)}
    return {"kind": kind}


def base_histories(chk):
    rng = chk.rng
    quick = chk.tier == "quick"
    out = []
    for i in range(36 if quick else 300):
        final = ["elim", "compose_t_schema", "compose_t_tree", "binop", "elim", "elim"][i % 6]
        pre_ops = ["compose_f_schema", "compose_f_schema", "compose_f_tree", "apply_func"] + (["elim"] if i % 2 else [])
        h = Hist("f%d" % i, rng, max_ops=3, ops=pre_ops)
        pre = list(h.steps)
        n0 = len(pre)
        h._op(final)
        body = h.steps[n0:]
        cp = h.checkpoints[-1]
        # position of the operation under test inside body
        call = cp["call"] - n0
        out.append({"id": h.id, "pre": pre, "body": body, "call": call, "cp": cp, "n0": n0, "final": final,
                    "meta": {"word": h.word, "in_dim": h.n}})
    return out


def with_plan(b, plan, cid):
    body = list(b["body"])
    steps = b["pre"] + body[:b["call"]] + [{"op": "arm", "plan": plan, "log": False}] + [body[b["call"]]] + [{"op": "disarm"}] + body[b["call"] + 1:]
    shift = lambda i: i if i < b["n0"] + b["call"] else (i + 1 if i == b["n0"] + b["call"] else i + 2)
    cp = dict(b["cp"])
    for k in ("before", "after", "a", "b", "call"):
        if k in cp:
            cp[k] = shift(cp[k])
    cp["upto"] = len(steps)
    cp["disarm"] = cp["call"] + 1
    return {"id": cid, "steps": steps, "cp": cp, "meta": dict(b["meta"], plan={k: v["kind"] for k, v in plan.items()}, final=b["final"])}


def build_targets(case, res, conv):
    cp = case["cp"]
    findings = []
    ps = step_panics(res)
    if ps:
        i, m = ps[0]
        where = "the faulted operation" if i == cp["call"] else "step %d" % i
        return [], 0, [("panic", "%s panics under plan %s: %s" % (where, case["meta"]["plan"], m), "panic")]
    after = res[cp["after"]]["out"]
    A = Tree(after)
    errs = A.structure_errors() + A.dim_errors()
    if errs:
        return [], 0, [("ill-formed", "tree not well-formed after the faulted operation (plan %s): %s" % (case["meta"]["plan"], errs[:2]), "structural")]
    if cp["kind"] in ("elim", "compose_t"):
        ref = Tree(res[cp["before"]]["out"]).pieces(conv)
    else:
        ref = refs.lift(Tree(res[cp["a"]]["out"]).pieces(conv), Tree(res[cp["b"]]["out"]).pieces(conv), cp["op"])
    # cached verdicts must stay sound (as C05)
    q = Q(A.in_dim)
    for idx, nd in A.nodes.items():
        conds, _ = A.path_conds(idx, conv)
        if nd.state[0] == "witness":
            for w in nd.state[1]:
                wx = [FR(v) for v in w]
                for c in conds:
                    a, b = c.closed(0)
                    if b - dot(a, wx) < -(SLACK + FR(16, 2**53) * (abs(b) + sum(abs(p * q) for p, q in zip(a, wx)))):
                        findings.append(("unsound-witness", "plan %s: node %d caches witness %s which violates its path condition %s by %.3g" % (
                            case["meta"]["plan"], idx, w, c, float(dot(a, wx) - b)), "structural"))
                        break
        elif nd.state[0] == "infeasible":
            r, m = q.check([zclosed(c.closed(-TAU), q.xs) for c in conds])
            if r == "sat":
                findings.append(("unsound-infeasible", "plan %s: node %d marked infeasible but x=%s lies in its region with margin" % (
                    case["meta"]["plan"], idx, [float(v) for v in m]), "structural"))
    findings = findings[:2]
    t = Target("%s under %s" % (cp["kind"], case["meta"]["plan"]), "t", after, cp["upto"], ref, tighten=TAU, sig=cp["kind"])
    return [t], case["meta"]["in_dim"], findings


def main():
    chk = Check("C11", "fault_enumeration", FUNCTIONS)
    conv = get_convention(chk)
    bases = base_histories(chk)
    # phase 1: count the LP calls of the operation under test
    probe = [with_plan(b, {}, b["id"]) for b in bases]
    pres = run_driver([{"id": c["id"], "steps": c["steps"]} for c in probe], tag="c11p")
    cases = []
    total_calls = 0
    quick = chk.tier == "quick"
    for b, pc in zip(bases, probe):
        r = pres[pc["id"]]
        if step_panics(r):
            cases.append(pc)      # will be reported by the generic flow
            continue
        ncalls = r[pc["cp"]["disarm"]]["out"]["calls"]
        total_calls += ncalls
        n = b["meta"]["in_dim"]
        plans = [{}]
        for pos in range(ncalls):
            for k in KINDS:
                plans.append({str(pos): fault(k, n)})
        if ncalls:
            for k in KINDS:
                plans.append({str(p): fault(k, n) for p in range(ncalls)})          # every call faulted
        if not quick:
            for p1, p2 in itertools.combinations(range(min(ncalls, 8)), 2):
                for k1, k2 in [("error", "far"), ("perturb", "unbounded"), ("far", "far"), ("perturb", "perturb")]:
                    plans.append({str(p1): fault(k1, n), str(p2): fault(k2, n)})
            for _ in range(10):
                sub = [p for p in range(ncalls) if chk.rng.random() < 0.5]
                plans.append({str(p): fault(chk.rng.choice(KINDS), n) for p in sub})
        for j, plan in enumerate(plans):
            cases.append(with_plan(b, plan, "%s.%d" % (b["id"], j)))
    chk.cov["lp_calls_in_operations_under_test"] = total_calls
    chk.cov["fault_plans"] = len(cases)
    chk.cov["base_histories"] = len(bases)
    run_target_check(chk, cases, "c11", "C11", conv, tag="c11", canary_every=50)
    chk.cov["rule"] = ("base histories (seeded, <= 3 preparatory operations, half of them with cached states) ending in the operation under "
                       "test (infeasible_elimination, pruned composition with a schema or a tree, tree arithmetic); for each the LP calls "
                       "are counted, then the operation is repeated under every plan: no fault, every single call position x {Error, "
                       "Unbounded, witness + 1e-3 e1, witness = 1e6}, every call faulted with one kind (thorough: pairs of positions, "
                       "seeded subsets); non-trivial = result has more than one piece")
    chk.cov["explanation"] = ("fault positions are enumerated exhaustively up to the stated subset size; per plan: no panic, tree "
                              "well-formed, cached witnesses within 1e-8 of their path region / infeasible verdicts empty up to tau "
                              "(solver), and z3 decides for every piece of the un-pruned reference tightened by tau that the faulted "
                              "result does not differ in definedness or value")
    chk.cov["bounds"] = {"fault_subset_size": 1 if quick else 2, "fault_kinds": KINDS, "dims": "<=3"}
    chk.cov["exhaustive"] = False
    chk.assumptions += ["fault model: the hook replaces the LP answer at chosen call indices; witness faults only alter an Optimal answer",
                        "inputs: all reals (solver); trees: seeded"]
    return chk.finish()


if __name__ == "__main__":
    run_main(main)

"""C02 Composition law: f.compose(g) is g after f, undefinedness included (DESIGN 5, C02)."""
import sys
from fractions import Fraction
from multiprocessing import Pool

import z3

import gen
from core import (Q, Tree, Stats, compose_pieces, pieces_after, find_difference, eval_pieces, aff_json, Malfunction,
                  run_driver, Aff, Piece, Con, zconds, hex_of_float)
from fw import (Check, get_convention, run_main, interior_and_boundary_points, compare_eval, value_mismatch,
                representable, point_hex)

FUNCTIONS = ["src/pwl/impl_composition.rs", "src/pwl/afftree.rs", "src/linalg/affine.rs", "src/tree/graph.rs"]


def make_cases(chk):
    rng = chk.rng
    cases = []
    quick = chk.tier == "quick"
    # bounded-exhaustive skeletons for K=2: every (shape f, shape g) with <= dmax decisions each
    dmax = 2 if quick else 3
    shapes = gen.shapes_upto(dmax, 2)
    pairs = [(sf, sg) for sf in shapes for sg in shapes]
    if quick:
        # all pairs with <= 1 decision each + a seeded third of the rest
        small = [p for p in pairs if gen.n_decisions(p[0]) <= 1 and gen.n_decisions(p[1]) <= 1]
        rest = [p for p in pairs if p not in small]
        pairs = small + rng.sample(rest, min(len(rest), 260))
    else:
        big = [p for p in pairs if gen.n_decisions(p[0]) + gen.n_decisions(p[1]) > 4]
        keep = set(map(id, big))
        pairs = [p for p in pairs if gen.n_decisions(p[0]) + gen.n_decisions(p[1]) <= 4 or id(p) in keep]
    for i, (sf, sg) in enumerate(pairs):
        n, m, p = rng.choice([1, 2, 2, 3]), rng.choice([1, 2, 3]), rng.choice([1, 2])
        cases.append(make_case("b%d" % i, sf, sg, n, m, p, 2, rng, order=rng.choice(["dfs", "bfs"])))
    # K = 4
    shapes4 = gen.shapes_upto(1, 4) + list(rng.sample(gen.shapes_exact(2, 4), 12 if quick else 200))
    for i in range(40 if quick else 2500):
        sf, sg = rng.choice(shapes4), rng.choice(shapes4)
        n, m, p = rng.choice([1, 2, 3]), rng.choice([1, 2]), rng.choice([1, 2])
        cases.append(make_case("q%d" % i, sf, sg, n, m, p, 4, rng))
    return cases


def make_case(cid, sf, sg, n, m, p, k, rng, order="dfs"):
    fs, _ = gen.tree_steps("f", sf, n, m, rng, k=k, order=order)
    gs, _ = gen.tree_steps("g", sg, m, p, rng, k=k)
    steps = fs + gs + [
        {"op": "clone", "name": "h", "src": "f"},
        {"op": "export", "tree": "f"},
        {"op": "export", "tree": "g"},
        {"op": "compose", "tree": "h", "other": "g", "prune": False, "verbose": rng.random() < 0.25},
        {"op": "export", "tree": "h"},
    ]
    meta = {"k": k, "sf": repr(sf), "sg": repr(sg), "dims": [n, m, p], "apply_func": False}
    if sg == "T":
        # apply_func is the special case of an affine g: run it on a second clone
        gaff = gs[0]["aff"]
        steps += [{"op": "clone", "name": "h2", "src": "f"},
                  {"op": "apply_func", "tree": "h2", "aff": gaff},
                  {"op": "export", "tree": "h2"}]
        meta["apply_func"] = True
    return {"id": cid, "steps": steps, "meta": meta, "nf": len(fs), "ng": len(gs)}


def strip_state(tj):
    """export without cached states (compose keeps caches; not part of this property)"""
    return [(n["idx"], n["leaf"], n["parent"], n["children"], n["mat"], n["bias"]) for n in tj["nodes"]]


def solve_case(args):
    case, res, conv, canary = args
    out = {"id": case["id"], "viol": [], "stats": None, "undecided": [], "canary": None, "structural": [],
           "pieces": 0, "points": [], "nontrivial": False}
    base = case["nf"] + case["ng"]
    for i, r in enumerate(res):
        if not r["ok"]:
            out["viol"].append({"kind": "panic", "step": i, "msg": r["panic"]})
            return out
    fj, gj, comp, hj = res[base + 1]["out"], res[base + 2]["out"], res[base + 3]["out"], res[base + 4]["out"]
    Ft, Gt, Ht = Tree(fj), Tree(gj), Tree(hj)
    # ---- side conditions (part of the statement)
    if comp["other_after"] != gj:
        out["structural"].append("right operand changed by compose")
    errs = Ht.structure_errors()
    if errs:
        out["structural"].append("result not well-formed: %s" % errs[:3])
    for idx in Ft.decisions():
        a, b = Ft.nodes[idx], Ht.nodes.get(idx)
        if b is None or b.leaf or a.M != b.M or a.c != b.c or a.parent != b.parent:
            out["structural"].append("decision %d of f not preserved in h" % idx)
        else:
            for lab, ch in enumerate(a.children):
                if ch is not None and b.children[lab] != ch:
                    out["structural"].append("child %d/%d of f moved in h" % (idx, lab))
    for idx in Ft.terminals():
        if idx not in Ht.nodes:
            out["structural"].append("terminal %d of f has no node in h" % idx)
        elif Ht.nodes[idx].parent != Ft.nodes[idx].parent:
            out["structural"].append("terminal %d of f re-parented in h" % idx)
        elif Ht.nodes[idx].leaf != Gt.nodes[Gt.root].leaf:
            out["structural"].append("graft root %d has wrong kind" % idx)
    if case["meta"]["apply_func"]:
        h2 = res[base + 7]["out"]
        if strip_state(h2) != strip_state(hj):
            out["structural"].append("apply_func(a) differs from compose(from_aff(a))")
    # ---- the law, for all inputs
    q = Q(Ft.in_dim)
    fp, gp, hp = Ft.pieces(conv), Gt.pieces(conv), Ht.pieces(conv)
    ref = compose_pieces(fp, lambda aff: pieces_after(gp, aff))
    out["pieces"] = len(hp)
    out["nontrivial"] = len(hp) > 1
    bad = find_difference(q, hp, ref, tag="C02 h vs g∘f")
    for f, asserts, verdict in bad:
        if verdict == "unknown":
            out["undecided"].append("piece of h at node %s" % f.node)
            continue
        m, ok = q.witness_f64(asserts)
        out["viol"].append({"kind": "law", "point": [str(v) for v in m] if m else None, "exact_f64": ok,
                            "node": f.node})
    # ---- canary: a deliberately wrong reference must be refuted
    if canary:
        for i, p_ in enumerate(ref):
            if p_.val is not None and p_.val.outdim > 0:
                r0, _ = q.check(zconds(p_.conds, q.xs))
                if r0 == "sat":
                    c2 = list(p_.val.c)
                    c2[0] = c2[0] + 1
                    wrong = ref[:i] + [Piece(p_.conds, Aff(p_.val.M, c2, p_.val.n))] + ref[i + 1:]
                    out["canary"] = len(find_difference(q, hp, wrong)) > 0
                    break
    # ---- points for translator validation
    if canary:
        out["points"] = [[str(v) for v in m] for m in interior_and_boundary_points(q, hp, max_pieces=12)]
    out["stats"] = (q.stats.sat, q.stats.unsat, q.stats.unknown, q.stats.solver_s, q.stats.samples)
    return out


def main():
    chk = Check("C02", "translation_validation", FUNCTIONS)
    conv = get_convention(chk)
    cases = make_cases(chk)
    results = run_driver([{"id": c["id"], "steps": c["steps"]} for c in cases], tag="c02")
    jobs = [(c, results[c["id"]], conv, i % 10 == 0) for i, c in enumerate(cases)]
    with Pool(16) as pool:
        outs = pool.map(solve_case, jobs, chunksize=8)
    by_id = {c["id"]: c for c in cases}
    replays = []      # (case, points, what)
    for o in outs:
        case = by_id[o["id"]]
        chk.programs += 1
        if o["nontrivial"]:
            chk.nontrivial.add(o["id"])
        if o["stats"]:
            st = Stats()
            st.sat, st.unsat, st.unknown, st.solver_s, st.samples = o["stats"]
            chk.stats.add(st)
        chk.count("pieces_of_h", o["pieces"])
        chk.oblige(True, max(o["pieces"] - len(o["viol"]) - len(o["undecided"]), 0))
        for u in o["undecided"]:
            chk.undecide("%s: %s" % (o["id"], u), "solver unknown/timeout")
        if o["canary"] is not None:
            chk.canaries["expected_sat"] += 1
            chk.canaries["fired"] += 1 if o["canary"] else 0
        for s in o["structural"]:
            r = chk.report("C02/compose/structure:" + s.split(" ")[0], s,
                           {"kind": "structural", "case": {"id": case["id"], "steps": case["steps"]}, "meta": case["meta"]})
        for v in o["viol"]:
            if v["kind"] == "panic":
                chk.report("C02/compose/panic", "dimension-compatible composition panics: %s" % v["msg"],
                           {"kind": "panic", "case": {"id": case["id"], "steps": case["steps"]}, "meta": case["meta"]})
            else:
                replays.append((case, v))
        if o["points"]:
            replays.append((case, {"kind": "validate", "points": o["points"]}))
        if len(chk.samples) < 3 and o["pieces"] > 2:
            chk.sample({"case": o["id"], "meta": case["meta"], "pieces_of_h": o["pieces"]})
    if chk.canaries["fired"] != chk.canaries["expected_sat"] or chk.canaries["expected_sat"] == 0:
        chk.malfunction("canary (wrong reference) not refuted: %s" % chk.canaries)
    # ---- native replay of solver witnesses + translator validation, one more driver run
    rcases = []
    for i, (case, v) in enumerate(replays):
        pts = v["points"] if v["kind"] == "validate" else ([v["point"]] if v["point"] else [])
        if not pts:
            chk.unreplayed.append("%s: no model" % case["id"])
            continue
        hexpts = [[hex_of_float(float(Fraction(s))) for s in p] for p in pts]
        steps = case["steps"] + [{"op": "eval", "tree": "h", "points": hexpts},
                                 {"op": "eval", "tree": "f", "points": hexpts}]
        rcases.append({"id": "r%d" % i, "steps": steps})
    rres = run_driver(rcases, tag="c02r") if rcases else {}
    for i, (case, v) in enumerate(replays):
        rid = "r%d" % i
        if rid not in rres:
            continue
        res = rres[rid]
        base = case["nf"] + case["ng"]
        Ft, Gt, Ht = Tree(res[base + 1]["out"]), Tree(res[base + 2]["out"]), Tree(res[base + 4]["out"])
        fp, gp, hp = Ft.pieces(conv), Gt.pieces(conv), Ht.pieces(conv)
        evh = res[len(case["steps"])]["out"]
        pts = v["points"] if v["kind"] == "validate" else [v["point"]]
        for ps, real in zip(pts, evh):
            x = [Fraction(s) for s in ps]
            xf = [Fraction(float(t)) for t in x]
            if v["kind"] == "validate":
                chk.validation["points"] += 1
                d = compare_eval(real, hp, xf)
                if d is None:
                    chk.validation["agree"] += 1
                else:
                    chk.malfunction("encoding of %s disagrees with the real evaluate at %s: %s" % (case["id"], ps, d))
                continue
            # expected value from the statement: g(f(x)) by exact evaluation of the operand pieces
            _, fv = eval_pieces(fp, xf)
            exp = None
            if fv is not None:
                _, exp = eval_pieces(pieces_after(gp, Aff([[Fraction(0)] * len(xf) for _ in fv], fv, len(xf))), xf)
            d = value_mismatch(real, exp)
            if d is None:
                chk.unreplayed.append("%s at %s: solver witness does not reproduce natively" % (case["id"], ps))
            else:
                sig = "C02/compose/definedness" if ("undefined" in d or "defined" in d.split(" ")[0]) else "C02/compose/value"
                chk.report(sig, "h=f.compose(g) at x=%s: %s" % ([float(t) for t in xf], d),
                           {"kind": "eval", "case": {"id": case["id"], "steps": case["steps"]}, "tree": "h",
                            "point": point_hex(xf), "expected": None if exp is None else [str(e) for e in exp],
                            "meta": case["meta"]})
    chk.cov["rule"] = ("pairs (f,g): every shape pair with <= %d decisions each for K=2 (quick: all with <=1, seeded subset of "
                       "the rest), seeded K=4 pairs; coefficients from the dyadic lattice k/4, |k|<=16 by VERIF_SEED; "
                       "non-trivial = h has more than one piece" % (2 if chk.tier == "quick" else 3))
    chk.cov["explanation"] = ("per pair, the real compose::<false,false> builds h; the solver decides for every piece of h that no "
                              "real input exists where h and the substitution g(f(x)) differ in definedness or value (exact)")
    chk.cov["bounds"] = {"decisions_per_operand": 2 if chk.tier == "quick" else 3, "dims": "n<=3, m<=3, p<=2", "K": [2, 4]}
    chk.assumptions += ["inputs: all reals (solver); programs: enumerated shapes + seeded lattice coefficients",
                        "exact regime: all coefficients dyadic, f64 arithmetic of the construction is exact",
                        "encoder routing convention calibrated against the real evaluate_decision each run"]
    return chk.finish()


if __name__ == "__main__":
    run_main(main)

"""Reference semantics of a layer sequence (the 'network'), written from the textbook definitions.

Two independent forms of the same definition:
  * net_z3(layers, xs): the network as a z3 term over the input variables (nested ite), used in the queries;
  * net_exact(layers, x): exact rational evaluation at one point, which also returns the linear region
    (activation pattern + head region) the point lies in, as a list of constraints over the input.
Layers: {"t": "linear", "M": [[Fraction]], "c": [Fraction]} | {"t": "relu"|"hardtanh"|"hardsigmoid", "row": i}
        | {"t": "leaky", "row": i, "alpha": Fraction} | {"t": "argmax"} | {"t": "classchar", "c": i}
"""
from fractions import Fraction

import z3

from core import Aff, Con, zfrac, zlin, dot

ZERO, ONE = Fraction(0), Fraction(1)


def out_dim(layers, n):
    for l in layers:
        if l["t"] == "linear":
            n = len(l["M"])
        elif l["t"] in ("argmax", "classchar"):
            n = 1
    return n


def net_z3(layers, xs):
    """returns (outputs: list of z3 terms, breakpoints: list of (term, value) whose zero crossing is a breakpoint)"""
    v = list(xs)
    bps = []
    for l in layers:
        t = l["t"]
        if t == "linear":
            v = [zlin(r, v) + zfrac(c) for r, c in zip(l["M"], l["c"])]
        elif t == "relu":
            i = l["row"]
            bps.append(v[i])
            v[i] = z3.If(v[i] > 0, v[i], z3.RealVal(0))
        elif t == "leaky":
            i = l["row"]
            bps.append(v[i])
            v[i] = z3.If(v[i] > 0, v[i], zfrac(l["alpha"]) * v[i])
        elif t == "hardtanh":
            i = l["row"]
            bps += [v[i] - 1, v[i] + 1]
            v[i] = z3.If(v[i] > 1, z3.RealVal(1), z3.If(v[i] < -1, z3.RealVal(-1), v[i]))
        elif t == "hardsigmoid":
            i = l["row"]
            bps += [v[i] - 3, v[i] + 3]
            v[i] = z3.If(v[i] > 3, z3.RealVal(1), z3.If(v[i] < -3, z3.RealVal(0), v[i] / 6 + zfrac(Fraction(1, 2))))
        elif t == "argmax":
            n = len(v)
            res = z3.RealVal(n - 1)
            for i in range(n - 2, -1, -1):
                first_max = z3.And([v[i] > v[j] for j in range(i)] + [v[i] >= v[j] for j in range(i + 1, n)])
                res = z3.If(first_max, z3.RealVal(i), res)
            for i in range(n):
                for j in range(i + 1, n):
                    bps.append(v[i] - v[j])
            v = [res]
        elif t == "classchar":
            c = l["c"]
            for j in range(len(v)):
                if j != c:
                    bps.append(v[c] - v[j])
            v = [z3.If(z3.And([v[c] >= v[j] for j in range(len(v)) if j != c]), z3.RealVal(1), z3.RealVal(0))]
        else:
            raise ValueError(t)
    return v, bps


def _row(aff, i):
    return aff.M[i], aff.c[i]


def net_exact(layers, x):
    """exact evaluation; returns (value list, region constraints (list of Con over the input), affine map on the region)"""
    n = len(x)
    st = Aff.identity(n)
    conds = []

    def set_row(st, i, coef, bias):
        M = [list(r) for r in st.M]
        c = list(st.c)
        M[i] = [coef * a for a in st.M[i]]
        c[i] = coef * st.c[i] + bias
        return Aff(M, c, n)

    def con(a, b, op):
        # a.x + b  op  0   with op in '>', '<=', '<', '>='
        if op == ">":
            return Con(a, -b, True)
        if op == "<=":
            return Con(a, -b, False)
        if op == "<":
            return Con([-v for v in a], b, True)
        if op == ">=":
            return Con([-v for v in a], b, False)
        raise ValueError(op)

    for l in layers:
        t = l["t"]
        if t == "linear":
            st = Aff(l["M"], l["c"], st.outdim).after(st)
            continue
        if t in ("relu", "leaky"):
            i = l["row"]
            a, b = _row(st, i)
            z = dot(a, x) + b
            if z > 0:
                conds.append(con(a, b, ">"))
            else:
                conds.append(con(a, b, "<="))
                st = set_row(st, i, ZERO if t == "relu" else l["alpha"], ZERO)
        elif t in ("hardtanh", "hardsigmoid"):
            i = l["row"]
            a, b = _row(st, i)
            z = dot(a, x) + b
            hi, lo = (ONE, -ONE) if t == "hardtanh" else (Fraction(3), Fraction(-3))
            if z > hi:
                conds.append(con(a, b - hi, ">"))
                st = set_row(st, i, ZERO, ONE)
            elif z < lo:
                conds.append(con(a, b - lo, "<"))
                st = set_row(st, i, ZERO, -ONE if t == "hardtanh" else ZERO)
            else:
                conds.append(con(a, b - hi, "<="))
                conds.append(con(a, b - lo, ">="))
                if t == "hardsigmoid":
                    st = set_row(st, i, Fraction(1, 6), Fraction(1, 2))
        elif t == "argmax":
            vals = st.at(x)
            m = max(vals)
            i = vals.index(m)
            for j in range(len(vals)):
                if j == i:
                    continue
                a = [p - q for p, q in zip(st.M[i], st.M[j])]
                b = st.c[i] - st.c[j]
                conds.append(con(a, b, ">" if j < i else ">="))
            st = Aff([[ZERO] * n], [Fraction(i)], n)
        elif t == "classchar":
            c = l["c"]
            vals = st.at(x)
            ismax = all(vals[c] >= vals[j] for j in range(len(vals)))
            if ismax:
                for j in range(len(vals)):
                    if j != c:
                        a = [p - q for p, q in zip(st.M[c], st.M[j])]
                        conds.append(con(a, st.c[c] - st.c[j], ">="))
                st = Aff([[ZERO] * n], [ONE], n)
            else:
                j = [j for j in range(len(vals)) if vals[j] > vals[c]][0]
                a = [p - q for p, q in zip(st.M[j], st.M[c])]
                conds.append(con(a, st.c[j] - st.c[c], ">"))
                st = Aff([[ZERO] * n], [ZERO], n)
        else:
            raise ValueError(t)
    return st.at(x), conds, st


def layers_to_driver(layers):
    from core import aff_json, hex_of_float
    out = []
    for l in layers:
        if l["t"] == "linear":
            out.append({"t": "linear", "aff": aff_json(l["M"], l["c"], len(l["M"][0]) if l["M"] else 0)})
        elif l["t"] == "leaky":
            out.append({"t": "leaky", "row": l["row"], "alpha": hex_of_float(float(l["alpha"]))})
        elif l["t"] == "classchar":
            out.append({"t": "classchar", "c": l["c"]})
        elif l["t"] == "argmax":
            out.append({"t": "argmax"})
        else:
            out.append({"t": l["t"], "row": l["row"]})
    return out


def layers_from_driver(js):
    from core import aff_from_json, F
    out = []
    for l in js:
        if l["t"] == "linear":
            M, c = aff_from_json(l["aff"])
            out.append({"t": "linear", "M": M, "c": c})
        elif l["t"] == "leaky":
            out.append({"t": "leaky", "row": l["row"], "alpha": F(l["alpha"])})
        elif l["t"] == "classchar":
            out.append({"t": "classchar", "c": l["c"]})
        elif l["t"] == "argmax":
            out.append({"t": "argmax"})
        else:
            out.append({"t": l["t"], "row": l["row"]})
    return out


def n_units(layers):
    return sum(1 for l in layers if l["t"] in ("relu", "leaky", "hardtanh", "hardsigmoid"))

"""Generators: dyadic lattice coefficients, bounded-exhaustive tree shapes, case scripts."""
from fractions import Fraction
from functools import lru_cache

from core import aff_json, hex_of_float

LATTICE = [Fraction(k, 4) for k in range(-16, 17)]
SMALL = [Fraction(v) for v in (-2, -1, 1, 2)] + [Fraction(1, 2), Fraction(-1, 2), Fraction(3, 2), Fraction(-3, 4), Fraction(1, 4)]


def coef(rng, pzero=0.2):
    r = rng.random()
    if r < pzero:
        return Fraction(0)
    if r < 0.7:
        return rng.choice(SMALL)
    return rng.choice(LATTICE)


def vec(rng, n, pzero=0.2):
    return [coef(rng, pzero) for _ in range(n)]


def nonzero_vec(rng, n, pzero=0.2):
    for _ in range(20):
        v = vec(rng, n, pzero)
        if any(v):
            return v
    v = [Fraction(0)] * n
    v[rng.randrange(n)] = Fraction(1)
    return v


def mat(rng, m, n, pzero=0.2):
    return [vec(rng, n, pzero) for _ in range(m)]


# ----------------------------------------------------------------------------- shapes
# shape := "T" | ("D", (child_0, ..., child_{K-1})) with child := shape | None (missing branch)

@lru_cache(maxsize=None)
def shapes_exact(d, k=2, nested=True):
    """all shapes with exactly d decisions (every decision has at least one child)"""
    if d == 0:
        return ("T",)
    out = []

    def slots(remaining, nslots):
        # distributions of `remaining` decisions over nslots child slots, each slot: None | shape
        if nslots == 0:
            if remaining == 0:
                yield ()
            return
        for here in range(remaining + 1):
            opts = [None, "T"] if here == 0 else list(shapes_exact(here, k, nested))
            for o in opts:
                for rest in slots(remaining - here, nslots - 1):
                    yield (o,) + rest

    for ch in slots(d - 1, k):
        if all(c is None for c in ch):
            continue
        out.append(("D", ch))
    return tuple(out)


def shapes_upto(d, k=2):
    out = []
    for i in range(d + 1):
        out += list(shapes_exact(i, k))
    return out


def n_decisions(shape):
    if shape == "T" or shape is None:
        return 0
    return 1 + sum(n_decisions(c) for c in shape[1])


def n_terminals(shape):
    if shape is None:
        return 0
    if shape == "T":
        return 1
    return sum(n_terminals(c) for c in shape[1])


def is_total(shape):
    if shape == "T":
        return True
    if shape is None:
        return False
    return all(is_total(c) for c in shape[1])


def random_shape(rng, d, k=2, total=False):
    """random shape with exactly d decisions"""
    if d == 0:
        return "T"
    for _ in range(100):
        parts = [0] * k
        for _ in range(d - 1):
            parts[rng.randrange(k)] += 1
        ch = []
        for p in parts:
            if p > 0:
                ch.append(random_shape(rng, p, k, total))
            elif total:
                ch.append("T")
            else:
                ch.append(rng.choice(["T", "T", "T", None]))
        if any(c is not None for c in ch):
            return ("D", tuple(ch))
    return ("D", tuple(["T"] * k))


def full_shape(depth, k=2):
    if depth == 0:
        return "T"
    return ("D", tuple(full_shape(depth - 1, k) for _ in range(k)))


# ----------------------------------------------------------------------------- scripts

def tree_steps(name, shape, n, m, rng, k=2, order="dfs", dec_gen=None, term_gen=None):
    """script that builds a tree of the given shape with lattice coefficients.
    returns (steps, layout) where layout maps arena index -> ('D'|'T', path labels)"""
    rows = {2: 1, 4: 2, 8: 3}[k]

    def dec():
        if dec_gen is not None:
            return dec_gen(rng, rows, n)
        return ([nonzero_vec(rng, n) for _ in range(rows)], vec(rng, rows))

    def term():
        if term_gen is not None:
            return term_gen(rng, m, n)
        return (mat(rng, m, n), vec(rng, m))

    steps = []
    layout = {}
    M, c = dec() if shape != "T" else term()
    steps.append({"op": "from_aff", "name": name, "k": k, "aff": aff_json(M, c, n)})
    layout[0] = ("T" if shape == "T" else "D", ())
    next_idx = [1]
    work = [(0, shape, ())]
    while work:
        idx, sh, path = work.pop() if order == "dfs" else work.pop(0)
        if sh == "T":
            continue
        new = []
        for label, ch in enumerate(sh[1]):
            if ch is None:
                continue
            M, c = term() if ch == "T" else dec()
            steps.append({"op": "add_child", "tree": name, "parent": idx, "label": label, "aff": aff_json(M, c, n)})
            ci = next_idx[0]
            next_idx[0] += 1
            layout[ci] = ("T" if ch == "T" else "D", path + (label,))
            new.append((ci, ch, path + (label,)))
        if order == "dfs":
            work.extend(reversed(new))
        else:
            work.extend(new)
    return steps, layout


def hexpt(x):
    return [hex_of_float(float(v)) for v in x]


class ArenaModel:
    """predicts slab indices (LIFO reuse of freed slots), so scripts can refer to nodes created after removals"""

    def __init__(self):
        self.free = []
        self.len_hw = 0     # high-water mark

    def insert(self):
        if self.free:
            return self.free.pop()
        self.len_hw += 1
        return self.len_hw - 1

    def remove(self, idx):
        self.free.append(idx)


def tree_steps_scrambled(name, shape, n, m, rng, k=2, dec_gen=None, term_gen=None, p_dummy=0.5, layout_f=0.0):
    """like tree_steps but with a random insertion order and dummy leaves inserted and removed on the way,
    so that arena indices are not in DFS/BFS order and slots get reused (child index < parent index happens).
    returns (steps, index_of_path: dict path-tuple -> arena index)"""
    rows = {2: 1, 4: 2, 8: 3}[k]

    def dec():
        if dec_gen is not None:
            return dec_gen(rng, rows, n)
        return ([nonzero_vec(rng, n) for _ in range(rows)], vec(rng, rows))

    def term():
        if term_gen is not None:
            return term_gen(rng, m, n)
        return (mat(rng, m, n), vec(rng, m))

    def aj(M, c):
        j = aff_json(M, c, n)
        if rng.random() < layout_f:
            j["layout"] = "f"
        return j

    arena = ArenaModel()
    steps = []
    M, c = dec() if shape != "T" else term()
    steps.append({"op": "from_aff", "name": name, "k": k, "aff": aj(M, c)})
    idx_of = {(): arena.insert()}
    # pending insertions: (path, subshape)
    pending = []
    if shape != "T":
        for label, ch in enumerate(shape[1]):
            if ch is not None:
                pending.append(((label,), ch))
    dummies = {}     # (parent_path, label) -> idx
    sub = {(): shape}

    def slot_free(ppath, label):
        return (ppath, label) not in dummies and (ppath + (label,)) not in idx_of

    while pending or dummies:
        # maybe add a dummy leaf somewhere
        if pending and rng.random() < p_dummy:
            cand = [(pp, l) for pp in idx_of if sub[pp] != "T" for l in range(k) if slot_free(pp, l)]
            if cand:
                pp, l = rng.choice(cand)
                steps.append({"op": "add_child", "tree": name, "parent": idx_of[pp], "label": l, "aff": aj(*term())})
                dummies[(pp, l)] = arena.insert()
                continue
        # maybe remove a dummy
        if dummies and (not pending or rng.random() < 0.4):
            (pp, l), di = rng.choice(sorted(dummies.items()))
            steps.append({"op": "remove_child", "tree": name, "parent": idx_of[pp], "label": l})
            arena.remove(di)
            del dummies[(pp, l)]
            continue
        if not pending:
            continue
        i = rng.randrange(len(pending))
        path, sh = pending.pop(i)
        pp, l = path[:-1], path[-1]
        if (pp, l) in dummies:
            steps.append({"op": "remove_child", "tree": name, "parent": idx_of[pp], "label": l})
            arena.remove(dummies.pop((pp, l)))
        M, c = term() if sh == "T" else dec()
        steps.append({"op": "add_child", "tree": name, "parent": idx_of[pp], "label": l, "aff": aj(M, c)})
        idx_of[path] = arena.insert()
        sub[path] = sh
        if sh != "T":
            for label, ch in enumerate(sh[1]):
                if ch is not None:
                    pending.append((path + (label,), ch))
    return steps, idx_of

"""Engine T core: exact-rational encoding of exported trees, z3 queries, driver I/O.

Everything numeric is a fractions.Fraction obtained from the f64 bit pattern the real
library holds; the solver (z3, QF_LRA) decides statements about *all* real inputs.
"""
import json
import os
import struct
import subprocess
import sys
import time
from fractions import Fraction

import z3

VERIF = os.path.dirname(os.path.dirname(os.path.abspath(__file__)))
REPO = os.environ.get("VERIF_REPO", "/repo")
BUILD = os.path.join(VERIF, "build")
TAU = Fraction(1, 10**6)          # margin for LP-tolerance dependent obligations (DESIGN 4.2)
CONTAINS_TOL = Fraction(1, 10**8)  # the library's documented containment tolerance


# ----------------------------------------------------------------------------- numbers

def hex_of_float(x):
    return struct.pack(">d", float(x)).hex()


def float_of_hex(h):
    if h in ("nan", "inf", "-inf"):
        return float(h)
    return struct.unpack(">d", bytes.fromhex(h))[0]


def F(h):
    """exact rational of an f64 given as hex bit pattern (finite values only)"""
    x = float_of_hex(h)
    if x != x or x in (float("inf"), float("-inf")):
        raise NonFinite(h)
    return Fraction(x)


class NonFinite(Exception):
    pass


def fr_to_hex(fr):
    """hex of the f64 nearest to fr; second value tells whether the conversion is exact"""
    x = float(fr)
    return hex_of_float(x), Fraction(x) == fr


def sig_bits(fr):
    """number of significant bits of a dyadic rational, None if not dyadic"""
    if fr == 0:
        return 0
    d = fr.denominator
    if d & (d - 1):
        return None
    n = abs(fr.numerator)
    while n % 2 == 0:
        n //= 2
    return n.bit_length()


def aff_json(mat, bias, cols=None):
    """matrix/bias of Fractions|floats|ints -> driver JSON (hex)"""
    m = [[hex_of_float(float(v)) for v in row] for row in mat]
    b = [hex_of_float(float(v)) for v in bias]
    if cols is None:
        cols = len(mat[0]) if mat else 0
    return {"mat": m, "bias": b, "cols": cols}


def aff_from_json(j):
    return ([[F(v) for v in row] for row in j["mat"]], [F(v) for v in j["bias"]])


# ----------------------------------------------------------------------------- linear algebra (exact)

def dot(a, x):
    return sum((ai * xi for ai, xi in zip(a, x) if ai != 0), Fraction(0))


def matvec(M, x):
    return [dot(r, x) for r in M]


def matmul(A, B):
    # A: m x k, B: k x n
    n = len(B[0]) if B else 0
    return [[sum((A[i][t] * B[t][j] for t in range(len(B)) if A[i][t] != 0), Fraction(0)) for j in range(n)]
            for i in range(len(A))]


def l1(a):
    return sum((abs(v) for v in a), Fraction(0))


class Aff:
    """affine map x -> M x + c with exact rational entries"""
    __slots__ = ("M", "c", "n")

    def __init__(self, M, c, n):
        self.M, self.c, self.n = M, c, n

    @property
    def outdim(self):
        return len(self.M)

    def at(self, x):
        return [dot(r, x) + ci for r, ci in zip(self.M, self.c)]

    def after(self, inner):
        """self o inner"""
        assert self.n == inner.outdim, (self.n, inner.outdim)
        if inner.outdim == 0:
            M = [[Fraction(0)] * inner.n for _ in self.M]
        else:
            M = matmul(self.M, inner.M)
        c = [dot(r, inner.c) + ci for r, ci in zip(self.M, self.c)]
        return Aff(M, c, inner.n)

    @staticmethod
    def identity(n):
        return Aff([[Fraction(int(i == j)) for j in range(n)] for i in range(n)], [Fraction(0)] * n, n)

    def key(self):
        return (tuple(tuple(r) for r in self.M), tuple(self.c))


class Con:
    """linear constraint a.x <= b (strict=False) or a.x > b (strict=True)"""
    __slots__ = ("a", "b", "strict")

    def __init__(self, a, b, strict):
        self.a, self.b, self.strict = list(a), b, strict

    def holds(self, x):
        v = dot(self.a, x)
        return v > self.b if self.strict else v <= self.b

    def sub(self, inner):
        """constraint on y = inner(x) rewritten as a constraint on x"""
        a = [sum((self.a[i] * inner.M[i][j] for i in range(len(self.a)) if self.a[i] != 0), Fraction(0))
             for j in range(inner.n)]
        return Con(a, self.b - dot(self.a, inner.c), self.strict)

    def negated(self):
        # not(a.x <= b) = a.x > b ; not(a.x > b) = a.x <= b
        return Con(self.a, self.b, not self.strict)

    def closed(self, delta=Fraction(0)):
        """closed version as (a', b') meaning a'.x <= b' ; delta>0 relaxes, delta<0 tightens (scaled by |a|_1)"""
        if not any(self.a):
            # zero row: no margin to speak of, keep its exact truth value (0 <= 0 or 0 <= -1)
            if delta >= 0:
                holds = (0 >= self.b) if self.strict else (0 <= self.b)      # closure (reported-region convention)
            else:
                holds = (0 > self.b) if self.strict else (0 <= self.b)
            return (list(self.a), Fraction(0) if holds else Fraction(-1))
        m = delta * l1(self.a)
        if self.strict:
            return ([-v for v in self.a], -self.b + m)
        return (list(self.a), self.b + m)

    def __repr__(self):
        return "%s %s %s" % ([str(v) for v in self.a], ">" if self.strict else "<=", self.b)


class Piece:
    __slots__ = ("conds", "val", "node", "path", "tag")

    def __init__(self, conds, val, node=None, path=None, tag=None):
        self.conds, self.val, self.node, self.path, self.tag = conds, val, node, path, tag


# ----------------------------------------------------------------------------- exported trees

class Convention:
    """routing convention of evaluate_decision, calibrated against the real code (DESIGN 4.5)
    on_plane_set: True if a point exactly on the hyperplane sets the row's bit (documented: <=)
    bit_of_row:   bit position contributed by row i (documented: i)"""

    def __init__(self, on_plane_set=True, bit_of_row=(0, 1, 2), inside_set=True):
        self.on_plane_set = on_plane_set
        self.bit_of_row = tuple(bit_of_row)
        self.inside_set = inside_set

    def documented(self):
        return self.on_plane_set and self.inside_set and self.bit_of_row[:2] == (0, 1)

    def describe(self):
        return {"on_plane_sets_bit": self.on_plane_set, "inside_sets_bit": self.inside_set,
                "bit_of_row": list(self.bit_of_row)}


DOC_CONV = Convention()


class Node:
    __slots__ = ("idx", "leaf", "parent", "children", "M", "c", "cols", "state", "nonfinite")


class Tree:
    def __init__(self, j):
        self.k = j["k"]
        self.in_dim = j["in_dim"]
        self.root = j["root"]
        self.len = j.get("len", len(j["nodes"]))
        self.nodes = {}
        self.raw = j
        for nj in j["nodes"]:
            nd = Node()
            nd.idx = nj["idx"]
            nd.leaf = nj["leaf"]
            nd.parent = nj["parent"]
            nd.children = nj["children"]
            nd.cols = nj["cols"]
            nd.nonfinite = False
            try:
                nd.M = [[F(v) for v in row] for row in nj["mat"]]
                nd.c = [F(v) for v in nj["bias"]]
            except NonFinite:
                nd.nonfinite = True
                nd.M, nd.c = nj["mat"], nj["bias"]
            st = nj["state"]
            if isinstance(st, dict):
                nd.state = ("witness", [[float_of_hex(v) for v in w] for w in st["witness"]], st["witness"])
            else:
                nd.state = (st,)
            self.nodes[nd.idx] = nd

    def aff(self, idx):
        nd = self.nodes[idx]
        return Aff(nd.M, nd.c, nd.cols)

    def terminals(self):
        return [i for i, n in self.nodes.items() if n.leaf]

    def decisions(self):
        return [i for i, n in self.nodes.items() if not n.leaf]

    def label_conds(self, nd, label, conv=DOC_CONV):
        """constraints under which evaluate_decision(nd, x) == label, or None if label cannot be produced"""
        m = len(nd.M)
        if label >= (1 << m) and m < 63:
            return None
        conds = []
        for r in range(m):
            bit = (label >> conv.bit_of_row[r]) & 1 if r < len(conv.bit_of_row) else (label >> r) & 1
            # documented: bit set <=> row.x - b <= 0
            set_side = Con(nd.M[r], nd.c[r], False) if conv.on_plane_set else Con([-v for v in nd.M[r]], -nd.c[r], True)
            if not conv.inside_set:
                set_side = set_side.negated()
            conds.append(set_side if bit else set_side.negated())
        return conds

    def pieces(self, conv=DOC_CONV, start=None):
        """symbolic execution of find_terminal on this concrete tree: list of Piece
        (val None = UNDEFINED: a taken edge has no target; tag 'panic' = label >= K)"""
        out = []

        def walk(idx, conds, path):
            nd = self.nodes[idx]
            if nd.leaf:
                out.append(Piece(conds, Aff(nd.M, nd.c, nd.cols), idx, path))
                return
            m = len(nd.M)
            for label in range(1 << m):
                lc = self.label_conds(nd, label, conv)
                if label >= self.k:
                    out.append(Piece(conds + lc, None, idx, path + [(idx, label)], tag="panic"))
                    continue
                ch = nd.children[label]
                if ch is None:
                    out.append(Piece(conds + lc, None, idx, path + [(idx, label)], tag="undef"))
                else:
                    walk(ch, conds + lc, path + [(idx, label)])

        walk(self.root if start is None else start, [], [])
        return out

    def path_conds(self, idx, conv=DOC_CONV):
        """routing condition of node idx (list of Con) and its (node,label) path"""
        path = []
        cur = idx
        while self.nodes[cur].parent is not None:
            p = self.nodes[cur].parent
            label = self.nodes[p].children.index(cur)
            path.append((p, label))
            cur = p
        path.reverse()
        conds = []
        for p, label in path:
            conds += self.label_conds(self.nodes[p], label, conv)
        return conds, path

    def dim_errors(self):
        """terminals share one output dimension; decisions have the number of rows K allows"""
        errs = []
        outs = {len(self.nodes[i].M) for i in self.terminals()}
        if len(outs) > 1:
            errs.append("terminals with different output dimensions %s" % sorted(outs))
        rows = {2: 1, 4: 2, 8: 3}.get(self.k)
        for i in self.decisions():
            if rows is not None and len(self.nodes[i].M) > rows:
                errs.append("decision %d has %d rows (K=%d)" % (i, len(self.nodes[i].M), self.k))
        return errs

    def structure_errors(self):
        """well-formedness of the exported arena (links mirror, leaf flags, reachability)"""
        errs = []
        roots = [i for i, n in self.nodes.items() if n.parent is None]
        if roots != [self.root]:
            errs.append("parentless nodes %s, root %s" % (roots, self.root))
        for i, n in self.nodes.items():
            kids = [c for c in n.children if c is not None]
            if n.leaf != (len(kids) == 0):
                errs.append("node %d leaf=%s but %d children" % (i, n.leaf, len(kids)))
            for c in kids:
                if c not in self.nodes:
                    errs.append("node %d child %d missing" % (i, c))
                elif self.nodes[c].parent != i:
                    errs.append("child %d of %d has parent %s" % (c, i, self.nodes[c].parent))
            if n.parent is not None:
                if n.parent not in self.nodes or i not in self.nodes[n.parent].children:
                    errs.append("node %d not among children of its parent %s" % (i, n.parent))
            if n.cols != self.in_dim:
                errs.append("node %d has %d columns, in_dim %d" % (i, n.cols, self.in_dim))
        seen = set()
        stack = [self.root] if self.root in self.nodes else []
        while stack:
            i = stack.pop()
            if i in seen:
                errs.append("cycle at %d" % i)
                break
            seen.add(i)
            stack += [c for c in self.nodes[i].children if c is not None and c in self.nodes]
        if len(seen) != len(self.nodes):
            errs.append("unreachable nodes %s" % sorted(set(self.nodes) - seen))
        return errs


def compose_pieces(fp, gp_of):
    """reference pieces of g(f(x)): fp pieces of f; gp_of(aff)->pieces of g rewritten over x"""
    out = []
    for p in fp:
        if p.val is None:
            out.append(Piece(p.conds, None, tag=p.tag))
            continue
        for q in gp_of(p.val):
            out.append(Piece(p.conds + q.conds, q.val, tag=q.tag))
    return out


def pieces_after(gpieces, inner):
    """pieces of g evaluated at y = inner(x), rewritten over x"""
    out = []
    for q in gpieces:
        conds = [c.sub(inner) for c in q.conds]
        out.append(Piece(conds, None if q.val is None else q.val.after(inner), q.node, q.path, q.tag))
    return out


# ----------------------------------------------------------------------------- z3

def zfrac(fr):
    return z3.RealVal(str(fr.numerator) + "/" + str(fr.denominator)) if fr.denominator != 1 else z3.RealVal(fr.numerator)


def zlin(a, xs):
    terms = [zfrac(ai) * xi for ai, xi in zip(a, xs) if ai != 0]
    if not terms:
        return z3.RealVal(0)
    return z3.Sum(terms) if len(terms) > 1 else terms[0]


def zcon(c, xs):
    lhs = zlin(c.a, xs)
    return lhs > zfrac(c.b) if c.strict else lhs <= zfrac(c.b)


def zclosed(ab, xs):
    a, b = ab
    return zlin(a, xs) <= zfrac(b)


def zaff(aff, xs):
    return [zlin(r, xs) + zfrac(ci) for r, ci in zip(aff.M, aff.c)]


def zconds(conds, xs):
    return [zcon(c, xs) for c in conds]


def frac_of_z3(v):
    if z3.is_rational_value(v):
        return Fraction(v.numerator_as_long(), v.denominator_as_long())
    if z3.is_algebraic_value(v):
        return Fraction(str(v.approx(30).as_fraction()))
    raise ValueError("not a numeric model value: %s" % v)


class Stats:
    def __init__(self):
        self.sat = self.unsat = self.unknown = 0
        self.solver_s = 0.0
        self.samples = []

    def add(self, other):
        self.sat += other.sat
        self.unsat += other.unsat
        self.unknown += other.unknown
        self.solver_s += other.solver_s
        for s in other.samples:
            if len(self.samples) < 6:
                self.samples.append(s)

    def as_dict(self):
        return {"sat": self.sat, "unsat": self.unsat, "unknown": self.unknown,
                "total": self.sat + self.unsat + self.unknown, "solver_s": round(self.solver_s, 3)}


_XC = [0]


class Q:
    """one z3 solver, push/pop per query, with statistics"""

    def __init__(self, nvars, timeout_ms=20000, name="x"):
        self.xs = [z3.Real("%s%d" % (name, i)) for i in range(nvars)]
        self.s = z3.Solver()
        self.s.set("timeout", timeout_ms)
        self.timeout_ms = timeout_ms
        self.stats = Stats()

    def check(self, assertions, want_model=True, sample_tag=None, timeout_ms=None):
        """returns ('sat', model_as_list_of_Fraction) | ('unsat', None) | ('unknown', None)"""
        if timeout_ms is not None:
            self.s.set("timeout", timeout_ms)
        try:
            return self._check(assertions, want_model, sample_tag, aux=timeout_ms is not None)
        finally:
            if timeout_ms is not None:
                self.s.set("timeout", self.timeout_ms)

    def _check(self, assertions, want_model, sample_tag, aux=False):
        self.s.push()
        for a in assertions:
            self.s.add(a)
        t0 = time.time()
        r = self.s.check()
        dt = time.time() - t0
        self.stats.solver_s += dt
        out = None
        if r == z3.sat:
            self.stats.sat += 1
            if want_model:
                m = self.s.model()
                out = [frac_of_z3(m.eval(x, model_completion=True)) for x in self.xs]
            res = "sat"
        elif r == z3.unsat:
            self.stats.unsat += 1
            res = "unsat"
        else:
            if not aux:
                self.stats.unknown += 1
            res = "unknown"
        xdir = os.environ.get("VERIF_XCHECK_DIR")
        if xdir and not aux and res in ("sat", "unsat"):
            # second opinion (thorough tier): a deterministic 1-in-16 sample of all queries and every 64th SAT one are dumped
            _XC[0] += 1
            if _XC[0] % 16 == 0:
                try:
                    txt = self.s.to_smt2()
                    if len(txt) < 200000:
                        import hashlib
                        h = hashlib.sha1(txt.encode()).hexdigest()[:16]
                        with open(os.path.join(xdir, "%s-%s.smt2" % (res, h)), "w") as f:
                            f.write("(set-logic ALL)\n" + txt)
                except Exception:
                    pass
        if sample_tag is not None and len(self.stats.samples) < 3:
            try:
                txt = self.s.to_smt2()
                if len(txt) < 4000:
                    self.stats.samples.append({"tag": sample_tag, "verdict": res, "smt2": txt})
            except Exception:
                pass
        self.s.pop()
        return res, out

    def witness_f64(self, assertions, grid_bits=10):
        """look for a model that is exactly representable as f64: first on the dyadic grid
        n/2^grid_bits, then any rational model (checked for representability by the caller)."""
        ns = [z3.Int("n%d" % i) for i in range(len(self.xs))]
        scale = 1 << grid_bits
        grid = [x * scale == z3.ToReal(n) for x, n in zip(self.xs, ns)]
        bound = [z3.And(x <= 1 << 20, x >= -(1 << 20)) for x in self.xs]
        r, m = self.check(list(assertions) + grid + bound, timeout_ms=2000)
        if r == "sat":
            return m, True
        r, m = self.check(assertions)
        if r == "sat":
            return m, all(Fraction(float(v)) == v for v in m)
        return None, False


def differs(fval, gval, xs, eps=None):
    """z3 condition: values (Aff or None) differ at x"""
    if fval is None and gval is None:
        return z3.BoolVal(False)
    if fval is None or gval is None:
        return z3.BoolVal(True)
    if fval.outdim != gval.outdim:
        return z3.BoolVal(True)
    fe, ge = zaff(fval, xs), zaff(gval, xs)
    if eps is None:
        return z3.Or([a != b for a, b in zip(fe, ge)]) if fe else z3.BoolVal(False)
    e = zfrac(eps)
    return z3.Or([z3.Or(a - b > e, b - a > e) for a, b in zip(fe, ge)]) if fe else z3.BoolVal(False)


def find_difference(q, F_pieces, G_pieces, eps=None, tighten=None, extra=None, tag=None):
    """for every piece f of F: is there x in f (optionally tightened by tau) where G differs?
    Returns list of (f_piece, model, verdict) for sat/unknown answers. G must be a partition."""
    xs = q.xs
    out = []
    gz = [(z3.And(zconds(g.conds, xs)) if g.conds else z3.BoolVal(True), g) for g in G_pieces]
    for f in F_pieces:
        if tighten is None:
            fc = zconds(f.conds, xs)
        else:
            fc = [zclosed(c.closed(-tighten), xs) for c in f.conds]
        alts = []
        for gc, g in gz:
            d = differs(f.val, g.val, xs, eps)
            if z3.is_false(d):
                continue
            alts.append(z3.And(gc, d) if not z3.is_true(d) else gc)
        if not alts:
            continue
        asserts = fc + [z3.Or(alts)] + (extra or [])
        r, m = q.check(asserts, sample_tag=tag)
        if r != "unsat":
            out.append((f, asserts, r))
    return out


def eval_pieces(pieces, x):
    """exact evaluation of a piece list at rational point x: (piece, value|None) ; pieces must partition"""
    hits = [p for p in pieces if all(c.holds(x) for c in p.conds)]
    if len(hits) != 1:
        raise EncoderError("point %s lies in %d pieces" % (x, len(hits)))
    p = hits[0]
    return p, (None if p.val is None else p.val.at(x))


class EncoderError(Exception):
    pass


# ----------------------------------------------------------------------------- driver

_built = {}


def build_driver(profile="dev"):
    """(re)build the driver against /repo's current working tree; returns path of the binary"""
    if profile in _built:
        return _built[profile]
    env = dict(os.environ)
    env["CARGO_NET_OFFLINE"] = "true"
    env["RUSTFLAGS"] = "--cfg affinitree_verif"
    env["CARGO_TARGET_DIR"] = os.path.join(BUILD, "driver")
    cmd = ["cargo", "build", "--offline", "--quiet"]
    if profile == "release":
        cmd.append("--release")
    lock = os.path.join(VERIF, "driver", "Cargo.lock")
    if not os.path.exists(lock):
        import shutil
        shutil.copy(os.path.join(REPO, "Cargo.lock"), lock)
    t0 = time.time()
    r = subprocess.run(cmd, cwd=os.path.join(VERIF, "driver"), env=env, stdout=subprocess.PIPE,
                       stderr=subprocess.PIPE, text=True)
    if r.returncode != 0:
        sys.stderr.write(r.stderr[-6000:])
        raise Malfunction("driver does not build against %s" % REPO)
    p = os.path.join(BUILD, "driver", "release" if profile == "release" else "debug", "drv")
    _built[profile] = p
    _built[profile + "_s"] = time.time() - t0
    return p


class Malfunction(Exception):
    """the machinery itself failed (exit 2)"""


_run_counter = [0]


def run_driver(cases, profile="dev", tag="run"):
    """cases: list of {"id":..., "steps":[...]} -> dict id -> list of step results"""
    binp = build_driver(profile)
    os.makedirs(os.path.join(BUILD, "io"), exist_ok=True)
    _run_counter[0] += 1
    base = os.path.join(BUILD, "io", "%s-%d-%d" % (tag, os.getpid(), _run_counter[0]))
    with open(base + ".in.json", "w") as f:
        json.dump({"cases": cases}, f)
    r = subprocess.run([binp, base + ".in.json", base + ".out.json"], stdout=subprocess.PIPE,
                       stderr=subprocess.PIPE, text=True)
    if r.returncode != 0:
        os.unlink(base + ".in.json")
        if len(cases) == 1:
            # the library aborted the process (e.g. a panic inside take_mut::take): report it as a panic of every step
            msg = "process aborted (exit %d) %s" % (r.returncode, r.stderr[-300:].replace("\n", " "))
            return {cases[0]["id"]: [{"ok": False, "panic": msg} for _ in cases[0]["steps"]]}
        if r.returncode > 0 and r.returncode != 101:
            raise Malfunction("driver failed (%d): %s" % (r.returncode, r.stderr[-2000:]))
        # find the culprit(s): split the batch
        out = {}
        mid = len(cases) // 2
        out.update(run_driver(cases[:mid], profile, tag))
        out.update(run_driver(cases[mid:], profile, tag))
        return out
    with open(base + ".out.json") as f:
        res = json.load(f)["results"]
    os.unlink(base + ".in.json")
    os.unlink(base + ".out.json")
    return {c["id"]: c["steps"] for c in res}


def repo_blob_hashes(files):
    out = {}
    for f in files:
        try:
            r = subprocess.run(["git", "-C", REPO, "hash-object", f], stdout=subprocess.PIPE, text=True)
            out[f] = r.stdout.strip()
        except Exception:
            out[f] = "?"
    return out

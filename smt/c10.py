"""C10 The LP layer classifies polytopes and optimises correctly (DESIGN 5, C10)."""
from fractions import Fraction
from multiprocessing import Pool

import z3

import gen
from core import Q, TAU, Con, zclosed, zlin, zfrac, run_driver, aff_json, aff_from_json, hex_of_float, float_of_hex, dot, l1
from fw import Check, run_main, absorb_stats, step_panics
from hist import Hist

FUNCTIONS = ["src/linalg/polyhedron.rs", "src/linalg/affine.rs"]
FR = Fraction
OPT_EPS = FR(1, 10**6)
MEMB = FR(1, 10**8)
# Counter-witnesses ("a point with margin exists", "a better point exists") must lie where f64 can tell: with |x_i| <= 2^26
# the rounding error of a.x is below 2^-52 * 2^26 * |a|_1 << 1e-6 |a|_1.  Systems whose only such points sit at 1e12..1e18
# (slivers between rows that are parallel up to the rounding of their coefficients) are beyond any f64 LP solver.
FARBOX = 2**26


def gen_system(rng, cat, n, thorough):
    rows = rng.choice([1, 2, 3, 4, 5] if not thorough else [1, 2, 3, 4, 5, 6, 8])
    A = [gen.nonzero_vec(rng, n) for _ in range(rows)]
    b = gen.vec(rng, rows)
    box = [[FR(int(i == j)) for j in range(n)] for i in range(n)] + [[FR(-int(i == j)) for j in range(n)] for i in range(n)]
    if cat == "bounded":
        r = rng.choice([FR(1), FR(2), FR(1, 2), FR(5)])
        A, b = box + A[:2], [r] * (2 * n) + [abs(v) + 1 for v in b[:2]]
    elif cat == "empty-margin":
        A += [[-v for v in A[0]]]
        b += [-b[0] - rng.choice([FR(1), FR(1, 4), FR(3)])]
    elif cat == "empty-hair":
        A += [[-v for v in A[0]]]
        b += [-b[0] - FR(1, 2**30)]
    elif cat == "point":
        p = gen.vec(rng, n)
        A, b = box, [p[i] for i in range(n)] + [-p[i] for i in range(n)]
    elif cat == "lowerdim":
        A += [[-v for v in A[0]]]
        b += [-b[0]]
    elif cat == "unbounded":
        A, b = A[:rng.choice([1, 2])], b[:2]
        b = b[:len(A)]
    elif cat == "redundant":
        A += [[2 * v for v in A[0]], list(A[0])]
        b += [2 * b[0] + 1, b[0]]
    elif cat == "zero-rows":
        A += [[FR(0)] * n]
        b += [rng.choice([FR(1), FR(0), FR(-1)])]
    elif cat == "parallel":
        A += [list(A[0]), [-v for v in A[0]]]
        b += [b[0] + 1, -b[0] + 2]
    elif cat == "mixed-scale":
        # rows of very different magnitude (the simplex backend misjudged such systems before rows were normalised)
        k = rng.randrange(len(A))
        s_ = rng.choice([FR(10**6), FR(10**7) * FR(11, 7), FR(10**8) / 3])
        A[k] = [s_ * v for v in A[k]]
        b[k] = s_ * b[k]
        if rng.random() < 0.5:
            A += box[:n]
            b += [FR(20)] * n
    elif cat == "tiny-row":
        # a necessary constraint written with tiny coefficients: its raw slack is far below 1e-8 although it cuts the box in half
        k = rng.randrange(n)
        s_ = rng.choice([FR(1, 10**9), FR(1, 2**33), FR(1, 10**11), FR(1, 10**17), FR(1, 2**70), FR(1, 10**30)])
        A, b = list(box), [FR(2)] * (2 * n)
        A.append([s_ if j == k else FR(0) for j in range(n)])
        b.append(s_ * rng.choice([FR(1), FR(0), FR(-1)]))
    elif cat == "far":
        # a region far from the origin / big-M bounds: the bias of a row is 1e8..1e10 times its normal
        c_ = rng.choice([FR(10**9), FR(2 * 10**9), FR(-3 * 10**9), FR(10**10)])
        w_ = rng.choice([FR(1), FR(10), FR(10**9)])
        k = rng.randrange(n)
        A, b = list(box), [FR(1)] * (2 * n)
        b[k], b[n + k] = c_ + w_, -c_            # c <= x_k <= c + w
        if rng.random() < 0.4:
            A, b = A[:n + k] + A[n + k + 1:], b[:n + k] + b[n + k + 1:]
            b[k] = abs(c_)                       # big-M: -1 <= x_k <= |c| only
            A.append(box[n + k]); b.append(FR(1))
    elif cat == "no-rows":
        A, b = [], []
    elif cat == "free-direction":
        # constraints that leave at least one coordinate completely free
        k = rng.randrange(n)
        A = [[(FR(0) if j == k else v) for j, v in enumerate(r)] for r in A]
        A = [r if any(r) else [FR(int(j != k or n == 1)) for j in range(n)] for r in A]
    # the system the library sees is the f64 rounding of these numbers: referee exactly that system
    A = [[FR(float(v)) for v in r] for r in A]
    b = [FR(float(v)) for v in b]
    return A, b


CATS = ["bounded", "bounded", "empty-margin", "empty-hair", "point", "lowerdim", "unbounded", "redundant", "zero-rows", "parallel",
        "free-direction", "mixed-scale", "tiny-row", "far", "random"]
CATS10 = CATS + ["no-rows"]


def make_cases(chk):
    rng = chk.rng
    quick = chk.tier == "quick"
    cases = []
    for i in range(480 if quick else 50000):
        cat = CATS10[i % len(CATS10)]
        n = rng.choice([1, 2, 2, 3] if quick else [1, 2, 2, 3, 3, 4])
        A, b = gen_system(rng, cat, n, not quick)
        objs = [[FR(0)] * n]
        if A:
            objs.append(list(rng.choice(A)))
            objs.append([-v for v in rng.choice(A)])
        objs.append(gen.vec(rng, n))
        objs.append([FR(int(j == rng.randrange(n))) for j in range(n)])
        P = aff_json(A, b, n)
        steps = [{"op": "lp_status", "poly": P}, {"op": "lp_is_feasible", "poly": P}, {"op": "cheb", "poly": P}]
        for c in objs:
            steps.append({"op": "lp_solve", "poly": P, "c": [hex_of_float(float(v)) for v in c]})
        cases.append({"id": "s%d" % i, "steps": steps, "A": A, "b": b, "objs": objs, "kind": "system",
                      "meta": {"category": cat, "n": n, "rows": len(A)}})
    # path polytopes that real pruning runs hand to the LP (hook call log)
    for i in range(30 if quick else 1500):
        h = Hist("l%d" % i, rng, max_ops=4, ops=["compose_f_schema", "compose_t_schema", "compose_f_tree", "apply_func", "elim"])
        h._op("elim")
        steps = [{"op": "arm", "plan": {}, "log": True}] + h.steps + [{"op": "disarm"}]
        cases.append({"id": h.id, "steps": steps, "kind": "log", "meta": {"word": h.word}})
    return cases


def referee(q, A, b, c, ans, n, label, out):
    """ans: driver status json for min c.x s.t. A x <= b"""
    xs = q.xs
    rows = [Con(r, v, False) for r, v in zip(A, b)]
    exact = [zclosed(rw.closed(0), xs) for rw in rows]
    near = [z3.And(x <= FARBOX, x >= -FARBOX) for x in xs]
    st = ans["status"]
    out["obl"] += 1
    out["status"][st] = out["status"].get(st, 0) + 1
    if st == "error":
        out["viol"].append(("error", "%s: backend error %s" % (label, ans.get("msg"))))
        return
    if st == "infeasible":
        r, m = q.check([zclosed(rw.closed(-TAU), xs) for rw in rows] + near, sample_tag="C10 infeasible => tightened system empty (|x| <= 2^26)")
        if r == "sat":
            out["viol"].append(("infeasible-but-nonempty", "%s: reported infeasible, but x=%s satisfies every row with margin 1e-6" % (
                label, [float(v) for v in m])))
        elif r == "unknown":
            out["undecided"].append(label)
        return
    # feasible answers: the set must not be empty by a margin
    r, _ = q.check([zclosed(rw.closed(TAU), xs) for rw in rows], want_model=False)
    if r == "unsat":
        out["viol"].append(("feasible-but-empty", "%s: reported %s, but the system is empty even after relaxing every row by 1e-6" % (label, st)))
        return
    obj = zlin(c, xs)
    rf, _ = q.check(exact, want_model=False)
    ray = [z3.Real("d%d" % i) for i in range(n)]
    if st == "optimal":
        wf = [float_of_hex(h) for h in ans["point"]]
        if any(v != v or abs(v) == float("inf") for v in wf):
            out["viol"].append(("witness-not-finite", "%s: reported optimal with the non-finite point %s" % (label, wf)))
            return
        w = [FR(v) for v in wf]
        out["obl"] += 2
        winf = max([abs(v) for v in w] + [FR(0)])
        for rw in rows:
            # the backend's feasibility tolerance acts on the row scaled to unit norm: 1e-8 relative to the row's size
            # (also for rows far below 1: a vertex that ignores the row 1e-17 x <= 1e-17 is outside, whatever its raw excess)
            slack = MEMB * (l1(rw.a) + abs(rw.b) + l1(rw.a) * winf)
            if dot(rw.a, w) - rw.b > slack:
                out["viol"].append(("witness-outside", "%s: returned point %s violates row %s <= %s by %.3g" % (
                    label, [float(v) for v in w], [float(v) for v in rw.a], float(rw.b), float(dot(rw.a, w) - rw.b))))
                return
        val = dot(c, w)
        eps = OPT_EPS * (1 + abs(val))
        r, m = q.check(exact + near + [obj < zfrac(val - eps)], sample_tag="C10 optimal => no better point (|x| <= 2^26)")
        if r == "sat":
            out["viol"].append(("not-optimal", "%s: returned objective %.6g, but x=%s is feasible with objective %.6g" % (
                label, float(val), [float(v) for v in m], float(dot(c, m)))))
        elif r == "unknown":
            out["undecided"].append(label)
        return
    if st == "unbounded":
        out["obl"] += 1
        # exactly when non-empty and the objective is unbounded below: a feasible point and an improving ray
        relaxed = [zclosed(rw.closed(TAU), xs) for rw in rows]
        r, _ = q.check(relaxed + [zlin(rw.a, ray) <= 0 for rw in rows] + [zlin(c, ray) < 0], want_model=False,
                       sample_tag="C10 unbounded => feasible (up to tau) and improving recession ray")
        if r == "unsat":
            # role of the failure: does the polytope have a vertex at all? (minilp's free-variable handling)
            rl, _ = q.check([zlin(rw.a, ray) <= 0 for rw in rows] + [zlin(c, ray) == 0, z3.Or([d != 0 for d in ray])], want_model=False)
            shape = "optimal-face-unbounded" if rl == "sat" else "optimal-face-bounded"
            kind = ("unbounded-with-zero-objective/" if not any(c) else "unbounded-but-bounded/") + shape
            out["viol"].append((kind, "%s: reported unbounded, but the set is non-empty with the objective bounded below "
                                "(no improving recession direction; the set of optimal points is %s)" % (label, "unbounded" if rl == "sat" else "bounded")))
        elif r == "unknown":
            out["undecided"].append(label)


def solve_case(args):
    case, res = args
    out = {"id": case["id"], "viol": [], "obl": 0, "undecided": [], "stats": None, "status": {}, "lp_calls": 0}
    ps = step_panics(res)
    if case["kind"] == "log":
        if ps:
            return out
        log = res[-1]["out"]["log"]
        for call in log:
            A, b = aff_from_json(call["poly"])
            n = call["poly"]["cols"]
            c = [FR(float_of_hex(h)) for h in call["c"]]
            q = Q(n)
            referee(q, A, b, c, call["real"], n, "LP call %d of %s" % (call["index"], case["meta"]["word"]), out)
            out["lp_calls"] += 1
            st = q.stats
            out["stats"] = tuple(x + y for x, y in zip(out["stats"] or (0, 0, 0, 0.0), (st.sat, st.unsat, st.unknown, st.solver_s))) + ([],)
            out["stats"] = out["stats"][:4]
        if out["stats"]:
            out["stats"] = out["stats"] + ([],)
        return out
    A, b, n = case["A"], case["b"], case["meta"]["n"]
    if ps:
        # is_feasible panics on Error by contract; anything else is a finding
        for i, m in ps:
            out["viol"].append(("panic", "step %d (%s) panics: %s" % (i, case["steps"][i]["op"], m)))
        return out
    q = Q(n)
    zero = [FR(0)] * n
    referee(q, A, b, zero, res[0]["out"], n, "status()", out)
    feas = res[1]["out"]["feasible"]
    out["obl"] += 1
    if feas != (res[0]["out"]["status"] in ("optimal", "unbounded")):
        out["viol"].append(("is_feasible-vs-status", "is_feasible()=%s but status()=%s" % (feas, res[0]["out"]["status"])))
    for k, c in enumerate(case["objs"]):
        referee(q, A, b, c, res[3 + k]["out"], n, "solve_linprog(c=%s)" % [float(v) for v in c], out)
    # Chebyshev centre program
    ch = res[2]["out"]
    CA, Cb = aff_from_json(ch["poly"])
    cc = [FR(float_of_hex(h)) for h in ch["cost"]]
    out["obl"] += 1
    ok = len(CA) == len(A) + 1 and all(len(r) == n + 1 for r in CA)
    if ok:
        for i, (r, bb) in enumerate(zip(CA[:-1], Cb[:-1])):
            nn = sum(v * v for v in A[i])
            if list(r[:n]) != list(A[i]) or bb != b[i] or abs(r[n] * r[n] - nn) > FR(1, 10**12) * nn or r[n] < 0:
                ok = False
        if list(CA[-1]) != [FR(0)] * n + [FR(-1)] or Cb[-1] != 0 or cc != [FR(0)] * n + [FR(-1)]:
            ok = False
    if not ok:
        out["viol"].append(("chebyshev-program", "chebyshev_center() does not return rows [a_i, |a_i| | b_i], the row -r <= 0 and the objective -r"))
    else:
        q2 = Q(n + 1)
        referee(q2, CA, Cb, cc, ch["solution"], n + 1, "chebyshev centre program", out)
        # largest inscribed ball, stated directly: centre in P with distance >= r to every facet, and no larger ball exists
        if ch["solution"]["status"] == "optimal":
            wf = [float_of_hex(h) for h in ch["solution"]["point"]]
            rad = FR(wf[n]) if wf[n] == wf[n] and abs(wf[n]) != float("inf") else FR(0)
            out["obl"] += 1
            if rad < -MEMB:
                out["viol"].append(("chebyshev-negative-radius", "Chebyshev radius %.3g is negative" % float(rad)))
        st = q2.stats
        q.stats.add(st)
    out["stats"] = (q.stats.sat, q.stats.unsat, q.stats.unknown, q.stats.solver_s, q.stats.samples)
    return out


def main():
    chk = Check("C10", "translation_validation", FUNCTIONS)
    cases = make_cases(chk)
    results = run_driver([{"id": c["id"], "steps": c["steps"]} for c in cases], tag="c10")
    with Pool(16) as pool:
        outs = pool.map(solve_case, [(c, results[c["id"]]) for c in cases], chunksize=4)
    status = {}
    for case, o in zip(cases, outs):
        chk.programs += 1
        for k, v in o["status"].items():
            status[k] = status.get(k, 0) + v
        if case["kind"] == "system":
            chk.count("cat_" + case["meta"]["category"])
            if len(o["status"]) > 1:
                chk.nontrivial.add(case["id"])
        else:
            chk.count("logged_lp_calls", o["lp_calls"])
            if o["lp_calls"]:
                chk.nontrivial.add(case["id"])
        if o["stats"]:
            absorb_stats(chk, o["stats"])
        chk.oblige(True, max(o["obl"] - len(o["viol"]) - len(o["undecided"]), 0))
        for u in o["undecided"]:
            chk.undecide("%s %s" % (case["id"], u), "solver unknown")
        seen = set()
        for sig, what in o["viol"]:
            role = sig
            if sig in ("unbounded-but-bounded", "unbounded-with-zero-objective") and case["kind"] == "system":
                role = sig
            if role in seen:
                continue
            seen.add(role)
            chk.report("C10/" + role, "%s (%s): %s" % (case["id"], case["meta"], what),
                       {"kind": "structural", "case": {"id": case["id"], "steps": case["steps"]}, "meta": case["meta"]})
        if len(chk.samples) < 4 and o["obl"] > 5:
            chk.sample({"case": case["id"], "meta": case["meta"], "answers": o["status"]})
    chk.cov["answers"] = status
    chk.cov["rule"] = ("constraint systems by category (bounded, empty with margin, empty by 2^-30, single point, lower-dimensional, "
                       "unbounded, redundant rows, zero rows with +/0/- bias, parallel rows, a completely free coordinate, mixed-scale and tiny rows, far-away regions, no rows, random), "
                       "dims 1..3 (4), rows <= 5+2n, five objectives each (zero, +/- facet normal, random, unit vector); plus every LP "
                       "the real pruning runs pose on seeded histories (hook call log); non-trivial = different answers within a case")
    chk.cov["explanation"] = ("z3 referees every answer of the real LP layer over all points: infeasible => the system tightened by "
                              "tau=1e-6 has no point with |x_i| <= 2^26; feasible => the system relaxed by tau is non-empty; optimal(w) => w "
                              "satisfies every row within 1e-8 (relative to |a|+|b|+|a||w|) and no feasible point with |x_i| <= 2^26 "
                              "has an objective smaller by more than 1e-6(1+|value|); unbounded => a feasible point and an improving recession direction exist; the "
                              "Chebyshev program has the documented rows/objective and its answer passes the same referee")
    chk.cov["bounds"] = {"dims": 3 if chk.tier == "quick" else 4, "rows": "<= 11"}
    chk.assumptions += ["points/directions: all reals (solver); systems and objectives: categories x seeded lattice",
                        "counter-witnesses (a point with margin, a better point) are sought within |x_i| <= 2^26: beyond that f64 cannot resolve "
                        "the 1e-6 margin, and slivers that open only at 1e12..1e18 are outside the claim"]
    return chk.finish()


if __name__ == "__main__":
    run_main(main)

"""C17 Predefined trees equal their mathematical definitions everywhere (DESIGN 5, C17)."""
from fractions import Fraction

import gen
import refs
from core import Aff, Con, Piece, Tree, aff_json, hex_of_float, aff_from_json
from fw import Check, Target, get_convention, run_main, run_target_check, step_panics

FUNCTIONS = ["src/distill/schema.rs", "src/pwl/afftree.rs", "src/linalg/affine.rs"]
H = hex_of_float
FR = Fraction


def schema_cases(chk):
    quick = chk.tier == "quick"
    dims = [1, 2, 3] if quick else [1, 2, 3, 4, 5]
    alphas = [FR(0), FR(1, 2), FR(1), FR(2), FR(-1), FR(1, 4)]
    cases = []

    def add(kind, n, row, params, meta_extra=None, minmax=None):
        cid = "s%d" % len(cases)
        st = {"op": "schema", "name": "t", "kind": kind, "dim": n, "row": row, "params": [H(float(p)) for p in params]}
        if minmax is not None:
            st["min"] = None if minmax[0] is None else H(float(minmax[0]))
            st["max"] = None if minmax[1] is None else H(float(minmax[1]))
        meta = {"family": "schema", "kind": kind, "dim": n, "row": row, "params": [str(p) for p in params],
                "minmax": None if minmax is None else [None if v is None else str(v) for v in minmax]}
        cases.append({"id": cid, "steps": [st, {"op": "export", "tree": "t"}], "meta": meta})

    for n in dims:
        for row in range(n):
            add("relu", n, row, [])
            for a in (alphas if not quick else alphas[:5]):
                add("leaky", n, row, [a])
            for lo, hi in [(FR(-1), FR(1)), (FR(0), FR(0)), (FR(-2), FR(1, 2)), (FR(1), FR(3)), (FR(-3), FR(-3, 2))]:
                add("hardtanh", n, row, [lo, hi])
            for lam in [FR(0), FR(1, 2), FR(1), FR(3)]:
                add("hardshrink", n, row, [lam])
            add("hardsigmoid", n, row, [])
            for th, v in [(FR(0), FR(0)), (FR(1), FR(1)), (FR(1, 2), FR(-2)), (FR(-1), FR(3)), (FR(2), FR(2))]:
                add("threshold", n, row, [th, v])
        if n >= 2:
            add("argmax", n, 0, [])
            for c in range(n):
                add("classchar", n, c, [])
    if quick:
        for n in (4, 5):
            add("argmax", n, 0, [])
            for c in range(n):
                add("classchar", n, c, [])
    for n in dims:
        for mm in [(FR(-1), None), (None, FR(1)), (FR(-1), FR(1)), (FR(0), FR(0)), (FR(1), FR(-1)), (FR(-1, 2), FR(2))]:
            add("infnorm", n, 0, [], minmax=mm)
    if not quick:
        for n in (6, 7):
            add("argmax", n, 0, [])
            for c in range(n):
                add("classchar", n, c, [])
    return cases


def poly_cases(chk):
    rng = chk.rng
    cases = []
    for i in range(120 if chk.tier == "quick" else 8000):
        n = rng.choice([1, 2, 2, 3])
        rows = rng.choice([1, 2, 2, 3])
        A = [gen.vec(rng, n, pzero=0.25) for _ in range(rows)]
        b = gen.vec(rng, rows)
        kind = rng.random()
        if kind < 0.15 and rows >= 2:      # duplicated / scaled row (redundant)
            A[1] = [2 * v for v in A[0]]
            b[1] = 2 * b[0] + rng.choice([FR(0), FR(1)])
        elif kind < 0.3 and rows >= 2:     # empty: x.a <= b and -x.a <= -b-1
            A[1] = [-v for v in A[0]]
            b[1] = -b[0] - 1
        elif kind < 0.4 and rows >= 2:     # equality pair (lower-dimensional)
            A[1] = [-v for v in A[0]]
            b[1] = -b[0]
        m = rng.choice([1, 2])
        f = (gen.mat(rng, m, n), gen.vec(rng, m))
        g = None if rng.random() < 0.5 else (gen.mat(rng, m, n), gen.vec(rng, m))
        steps = [{"op": "from_poly", "name": "t", "poly": aff_json(A, b, n), "f_true": aff_json(f[0], f[1], n),
                  "f_false": None if g is None else aff_json(g[0], g[1], n)},
                 {"op": "export", "tree": "t"}]
        cases.append({"id": "p%d" % i, "steps": steps,
                      "meta": {"family": "from_poly", "A": [[str(v) for v in r] for r in A], "b": [str(v) for v in b],
                               "f": [[[str(v) for v in r] for r in f[0]], [str(v) for v in f[1]]],
                               "g": None if g is None else [[[str(v) for v in r] for r in g[0]], [str(v) for v in g[1]]],
                               "dim": n}})
    return cases


def slice_cases(chk):
    rng = chk.rng
    cases = []
    shapes = gen.shapes_upto(2, 2)
    for i in range(60 if chk.tier == "quick" else 4000):
        n = rng.choice([2, 3, 3, 4])
        keep = [rng.random() < 0.5 for _ in range(n)]
        if all(keep):
            keep[rng.randrange(n)] = False
        if not any(keep):
            keep[rng.randrange(n)] = True
        ref = [None if k else gen.coef(rng) for k in keep]
        sh = rng.choice(shapes)
        ts, _ = gen.tree_steps("t", sh, n, rng.choice([1, 2]), rng)
        steps = ts + [{"op": "export", "tree": "t"},
                      {"op": "from_slice", "name": "s", "ref": ["nan" if v is None else H(float(v)) for v in ref]},
                      {"op": "compose", "tree": "s", "other": "t", "prune": False},
                      {"op": "remove_axes", "tree": "s", "mask": keep},
                      {"op": "export", "tree": "s"}]
        cases.append({"id": "x%d" % i, "steps": steps, "nt": len(ts),
                      "meta": {"family": "slice", "ref": [None if v is None else str(v) for v in ref], "shape": repr(sh)}})
    return cases


def build_targets(case, res, conv):
    meta = case["meta"]
    findings = [("panic", "step %d panics: %s" % (i, m), "panic") for i, m in step_panics(res)]
    if findings:
        return [], 0, findings
    fam = meta["family"]
    if fam == "schema":
        n, row = meta["dim"], meta["row"]
        p = [FR(s) for s in meta["params"]]
        kind = meta["kind"]
        eps = box = None
        if kind == "relu":
            ref = refs.relu(n, row)
        elif kind == "leaky":
            ref = refs.leaky(n, row, p[0])
        elif kind == "hardtanh":
            ref = refs.clamp(n, row, p[0], p[1])
        elif kind == "hardshrink":
            ref = refs.hard_shrink(n, row, p[0])
        elif kind == "hardsigmoid":
            ref = refs.hard_sigmoid(n, row)
            eps, box = FR(1, 10**9), 1 << 16        # slope 1/6 is not a double: rounding regime
        elif kind == "threshold":
            ref = refs.threshold(n, row, p[0], p[1])
        elif kind == "argmax":
            ref = refs.argmax(n)
        elif kind == "classchar":
            ref = refs.class_char(n, row)
        elif kind == "infnorm":
            lo, hi = [None if v is None else FR(v) for v in meta["minmax"]]
            ref = refs.inf_norm(n, lo, hi)
        t = Target("%s(dim=%d,row=%d,%s)" % (kind, n, row, meta["params"] or meta["minmax"] or ""), "t", res[1]["out"], 1, ref,
                   eps=eps, box=box, sig=kind)
        return [t], n, []
    if fam == "from_poly":
        if res[0]["out"]["result"] != "ok":
            return [], 0, [("from_poly/err", "dimension-compatible from_poly returned Err: %s" % res[0]["out"], "structural")]
        n = meta["dim"]
        A = [[FR(v) for v in r] for r in meta["A"]]
        b = [FR(v) for v in meta["b"]]
        f = Aff([[FR(v) for v in r] for r in meta["f"][0]], [FR(v) for v in meta["f"][1]], n)
        g = None if meta["g"] is None else Aff([[FR(v) for v in r] for r in meta["g"][0]], [FR(v) for v in meta["g"][1]], n)
        return [Target("from_poly", "t", res[1]["out"], 1, refs.from_poly(A, b, f, g), sig="from_poly")], n, []
    if fam == "slice":
        nt = case["nt"]
        T = Tree(res[nt]["out"])
        refv = meta["ref"]
        n = len(refv)
        kept = [i for i, v in enumerate(refv) if v is None]
        # embed: x' -> x with x_i = x'_k for kept axes, fixed value otherwise
        M = [[FR(0)] * len(kept) for _ in range(n)]
        c = [FR(0)] * n
        for k, i in enumerate(kept):
            M[i][k] = FR(1)
        for i, v in enumerate(refv):
            if v is not None:
                c[i] = FR(v)
        embed = Aff(M, c, len(kept))
        from core import pieces_after
        ref = pieces_after(T.pieces(conv), embed)
        out = res[nt + 4]["out"]
        fnd = []
        if res[nt + 3]["out"].get("result") != "ok":
            fnd.append(("slice/err", "remove_axes returned Err", "structural"))
        if out["in_dim"] != len(kept):
            fnd.append(("slice/in_dim", "in_dim %s after remove_axes, expected %d" % (out["in_dim"], len(kept)), "structural"))
            return [], 0, fnd
        return [Target("slice+remove_axes", "s", out, nt + 4, ref, sig="slice")], len(kept), fnd
    raise AssertionError(fam)


def describe(case, t, real, exp, xf):
    meta = case["meta"]
    if meta["family"] == "schema" and meta["kind"] == "hardshrink":
        lam = FR(meta["params"][0])
        if abs(xf[meta["row"]]) == lam:
            return "closed-at-±λ"
    return None


def main():
    chk = Check("C17", "translation_validation", FUNCTIONS)
    conv = get_convention(chk)
    cases = schema_cases(chk) + poly_cases(chk) + slice_cases(chk)
    for fam in ("schema", "from_poly", "slice"):
        chk.cov["cases_" + fam] = sum(1 for c in cases if c["meta"]["family"] == fam)
    run_target_check(chk, cases, "c17", "C17", conv, tag="c17", describe=describe)
    chk.cov["rule"] = ("every schema generator x dim x row/class x parameter lattice (degenerate points included), seeded lattice "
                       "polytopes for from_poly (redundant, empty, equality pairs), seeded slices of generated trees; "
                       "non-trivial = exported tree has more than one piece")
    chk.cov["explanation"] = ("the real generator builds the tree; the solver decides for every piece that no real input exists where "
                              "tree and textbook definition differ in definedness or value (exact; hard sigmoid within 1e-9 on |x|<=2^16)")
    chk.cov["bounds"] = {"dims": "1..3 quick / 1..5 (argmax, class: ..7) thorough", "poly_rows": "<=3"}
    chk.assumptions += ["inputs: all reals (solver); instances: enumerated parameter lattice + seeded polytopes/trees",
                        "hard sigmoid compared up to 1e-9 because its slope 1/6 is not a double",
                        "encoder routing convention calibrated against the real evaluate_decision each run"]
    return chk.finish()


if __name__ == "__main__":
    run_main(main)

"""C09 Reported regions agree with evaluation and partition the domain (DESIGN 5, C09)."""
from fractions import Fraction
from multiprocessing import Pool

import z3

import gen
from core import Q, Tree, Con, F, aff_json, zcon, zlin, zfrac, zconds, hex_of_float, run_driver, aff_from_json, DOC_CONV, Malfunction
from fw import (Check, calibrate, run_main, absorb_stats, interior_and_boundary_points, compare_eval, step_panics, point_hex)

FUNCTIONS = ["src/pwl/iter.rs", "src/pwl/afftree.rs", "src/tree/graph.rs", "src/tree/iter.rs"]
FR = Fraction


def make_cases(chk):
    rng = chk.rng
    quick = chk.tier == "quick"
    cases = []
    shapes = gen.shapes_upto(2, 2) + list(gen.shapes_exact(3, 2))
    extra = 60 if quick else 5000
    for i in range(len(shapes) + extra):
        if i < len(shapes):
            sh = shapes[i]
        else:
            sh = gen.random_shape(rng, rng.choice([3, 4, 4] if quick else [3, 4, 4, 5]), 2, total=rng.random() < 0.5)
        n = rng.choice([1, 2, 2, 3])
        pool = [gen.nonzero_vec(rng, n, pzero=0.3) for _ in range(2)]

        def dg(rng_, rows, n_, pool=pool):
            r = rng_.random()
            if r < 0.5:     # parallel / coincident hyperplanes
                a = rng_.choice(pool)
                s = rng_.choice([FR(1), FR(-1), FR(2)])
                return ([[s * v for v in a]], [rng_.choice([FR(0), FR(1), FR(-1), FR(1, 2)])])
            if r < 0.55:
                return ([[FR(0)] * n_], [rng_.choice([FR(0), FR(1), FR(-1)])])     # zero row
            return ([gen.nonzero_vec(rng_, n_)], [gen.coef(rng_)])
        scr = rng.random() < 0.5
        if scr:
            ts, idx_of = gen.tree_steps_scrambled("t", sh, n, 1, rng, dec_gen=dg)
            nnodes = len(idx_of)
        else:
            ts, layout = gen.tree_steps("t", sh, n, 1, rng, dec_gen=dg, order=rng.choice(["dfs", "bfs"]))
            nnodes = len(layout)
        if i % 3 == 1:
            # a subtree cut by the public remove_all_descendants (its root stays as a terminal), then new nodes that
            # reuse the freed arena indices
            ts = ts + [{"op": "cut_and_regrow", "tree": "t", "pick": rng.randrange(8), "how": rng.choice(["descendants", "children"]),
                        "regrow": ({"dec": aff_json(*dg(rng, 1, n), n), "t0": aff_json(gen.mat(rng, 1, n), gen.vec(rng, 1), n),
                                    "t1": aff_json(gen.mat(rng, 1, n), gen.vec(rng, 1), n)} if rng.random() < 0.7 else None)}]
        steps = ts + [{"op": "export", "tree": "t"}, {"op": "polyhedra", "tree": "t", "skips": []},
                      {"op": "polyhedra", "tree": "t", "skips": [], "iter": True}]
        for p in range(nnodes):
            steps.append({"op": "polyhedra", "tree": "t", "skips": [p]})
            steps.append({"op": "polyhedra", "tree": "t", "skips": [p, p], "iter": p % 2 == 1})      # skip_subtree twice in a row
        if not quick or i % 4 == 0:
            for p in range(nnodes):
                for p2 in range(p + 1, nnodes):
                    steps.append({"op": "polyhedra", "tree": "t", "skips": [p, p2], "iter": (p + p2) % 2 == 0})
        steps.append({"op": "metrics", "tree": "t"})
        steps.append({"op": "export", "tree": "t"})
        # path_to_node of every arena index that can exist (valid and stale ones)
        for idx in range(nnodes + 3):
            steps.append({"op": "path_to_node", "tree": "t", "node": idx})
        cases.append({"id": "g%d" % i, "steps": steps, "nt": len(ts), "nnodes": nnodes,
                      "meta": {"shape": repr(sh), "in_dim": n, "scrambled": scr, "total": gen.is_total(sh)}})
    return cases


def expected_stream(T, skips):
    """DFS pre-order from the exported links: children by ascending label, skip after position p omits descendants"""
    out = []
    pos = [0]

    def walk(idx, depth, n_remaining, path):
        out.append({"depth": depth, "index": idx, "n_remaining": n_remaining, "path": path})
        p = pos[0]
        pos[0] += 1
        if p in skips:
            return
        kids = [(l, c) for l, c in enumerate(T.nodes[idx].children) if c is not None]
        for j, (l, c) in enumerate(kids):
            walk(c, depth + 1, len(kids) - 1 - j, path + [(idx, l)])
    walk(T.root, 0, 0, [])
    return out


def expected_polys(T, path):
    """documented reporting convention: per edge, label 1 -> (a, b), label 0 -> (-a, -b) (closed half-space)"""
    out = []
    for idx, label in path:
        nd = T.nodes[idx]
        s = 1 if label == 1 else -1
        out.append(([[s * v for v in r] for r in nd.M], [s * v for v in nd.c]))
    return out


def solve_case(args):
    case, res, conv = args
    out = {"id": case["id"], "findings": [], "cands": [], "undecided": [], "stats": None, "points": [], "obl": 0}
    p = step_panics(res)
    if p:
        out["findings"].append(("panic", "step %d panics: %s" % p[0]))
        return out
    nt = case["nt"]
    T = Tree(res[nt]["out"])
    errs = T.structure_errors()
    out["obl"] += 1
    if errs:
        # the arena the traversals walk over is itself broken (dangling links, orphans): report that, nothing else can be derived
        out["findings"].append(("ill-formed-arena", "the tree built by the history is not well-formed: %s" % errs[:3]))
        return out
    stream = res[nt + 1]["out"]["items"]
    # ---- stream structure, all skip variants
    met_at = [i for i, st_ in enumerate(case["steps"]) if st_["op"] == "metrics"][0]
    for si in range(nt + 1, met_at):
        st = case["steps"][si]
        items = res[si]["out"]["items"]
        exp = expected_stream(T, set(st["skips"]))
        out["obl"] += 1
        got = [(it["depth"], it["index"], it["n_remaining"]) for it in items]
        want = [(e["depth"], e["index"], e["n_remaining"]) for e in exp]
        if got != want:
            kind = "order" if [g[1] for g in got] != [w[1] for w in want] else ("depth" if [g[0] for g in got] != [w[0] for w in want] else "n_remaining")
            out["findings"].append(("stream/%s%s" % (kind, "-after-skip" if st["skips"] else ""),
                                    "polyhedra%s(skips=%s): got (depth,index,n_remaining) %s, expected %s" % (
                                        "_iter" if st.get("iter") else "", st["skips"], got[:8], want[:8])))
            continue
        for it, e in zip(items, exp):
            polys = [aff_from_json(pj) for pj in it["polys"]]
            if polys != expected_polys(T, e["path"]):
                out["findings"].append(("stream/path-conditions%s" % ("-after-skip" if st["skips"] else ""),
                                        "polyhedra%s(skips=%s): node %d reported with %d path conditions %s, expected the %d of its path" % (
                                            "_iter" if st.get("iter") else "", st["skips"], it["index"], len(polys),
                                            [[[float(v) for v in r] for r in M] for M, c in polys][:3], len(e["path"]))))
                break
        if st.get("iter") and not st["skips"]:
            sh = res[si]["out"]["size_hint"]
            if not (sh[0] <= len(items) and (sh[1] is None or len(items) <= sh[1])):
                out["findings"].append(("stream/size_hint", "polyhedra_iter size_hint %s does not bracket %d items" % (sh, len(items))))
    # ---- metrics vs direct computation
    met = res[met_at]["out"]
    if sorted(met["terminal_indices"]) != sorted(T.terminals()) or met["len"] != len(T.nodes):
        out["findings"].append(("metrics", "terminal_indices/len disagree with the exported tree"))
    # the path of every node as path_to_node reports it = the (node, label) sequence of the exported links
    for si in range(met_at + 2, len(res)):
        idx = case["steps"][si]["node"]
        r = res[si]["out"]
        out["obl"] += 1
        if idx in T.nodes:
            _, want = T.path_conds(idx, conv)
            if r["result"] != "ok" or [tuple(p) for p in r["path"]] != [tuple(p) for p in want]:
                out["findings"].append(("path_to_node", "path_to_node(%d) = %s, the links say %s" % (idx, r.get("path", r.get("msg")), want)))
        elif r["result"] == "ok":
            out["findings"].append(("path_to_node", "path_to_node(%d) succeeds for an index that is not in the tree" % idx))
    # ---- solver obligations on the reported regions (non-skip stream)
    q = Q(T.in_dim)
    xs = q.xs
    reported = {}
    for it in stream:
        rows = []
        for pj in it["polys"]:
            M, c = aff_from_json(pj)
            rows += [Con(r, b, False) for r, b in zip(M, c)]
        reported[it["index"]] = rows
    for n, rows in reported.items():
        route, _ = T.path_conds(n, conv)
        rz = zconds(route, xs)
        if rows:
            # (a) routed through n but outside a reported row
            out["obl"] += 1
            a_ass = rz + [z3.Or([zlin(c.a, xs) > zfrac(c.b) for c in rows])]
            r, _ = q.check(a_ass, want_model=False, sample_tag="C09 routed => inside reported region")
            if r == "sat":
                m, ok = q.witness_f64(a_ass)
                out["cands"].append({"kind": "a", "node": n, "point": [str(v) for v in m]})
            elif r == "unknown":
                out["undecided"].append("(a) node %d" % n)
            # (b) strictly inside the reported polytope but not routed through n
            out["obl"] += 1
            b_ass = [zlin(c.a, xs) < zfrac(c.b) for c in rows] + ([z3.Not(z3.And(rz))] if rz else [z3.BoolVal(False)])
            r, _ = q.check(b_ass, want_model=False, sample_tag="C09 strictly inside => routed")
            if r == "sat":
                m, ok = q.witness_f64(b_ass)
                out["cands"].append({"kind": "b", "node": n, "point": [str(v) for v in m]})
            elif r == "unknown":
                out["undecided"].append("(b) node %d" % n)
        elif route:
            out["findings"].append(("regions/missing-conditions", "node %d reported without path conditions" % n))
    terms = [t for t in T.terminals() if t in reported]
    for i, t1 in enumerate(terms):
        for t2 in terms[i + 1:]:
            out["obl"] += 1
            ass = [zlin(c.a, xs) < zfrac(c.b) for c in reported[t1] + reported[t2]]
            r, _ = q.check(ass, want_model=False)
            if r == "sat":
                m, ok = q.witness_f64(ass)
                out["cands"].append({"kind": "c", "node": t1, "node2": t2, "point": [str(v) for v in m]})
            elif r == "unknown":
                out["undecided"].append("(c) %d %d" % (t1, t2))
    if case["meta"]["total"] and terms:
        out["obl"] += 1
        ass = [z3.Or([zlin(c.a, xs) > zfrac(c.b) for c in reported[t]]) if reported[t] else z3.BoolVal(False) for t in terms]
        r, _ = q.check(ass, want_model=False, sample_tag="C09 terminals cover the space")
        if r == "sat":
            m, ok = q.witness_f64(ass)
            out["cands"].append({"kind": "d", "node": None, "point": [str(v) for v in m]})
        elif r == "unknown":
            out["undecided"].append("(d)")
    out["points"] = [[str(v) for v in m] for m in interior_and_boundary_points(q, T.pieces(conv), max_pieces=16)]
    out["stats"] = (q.stats.sat, q.stats.unsat, q.stats.unknown, q.stats.solver_s, q.stats.samples)
    return out


def main():
    chk = Check("C09", "translation_validation", FUNCTIONS)
    conv, obs = calibrate()
    chk.cov["routing_convention_observed"] = obs
    if conv is None or not conv.documented():
        chk.report("C09/evaluate_decision/convention",
                   "evaluate_decision does not follow the documented convention (row i satisfied with <= sets bit i): observed %s" % obs,
                   {"kind": "structural", "case": {"id": "calibration", "steps": []}, "observed": obs})
        if conv is None:
            return chk.finish()
    cases = make_cases(chk)
    results = run_driver([{"id": c["id"], "steps": c["steps"]} for c in cases], tag="c09")
    with Pool(16) as pool:
        outs = pool.map(solve_case, [(c, results[c["id"]], conv) for c in cases], chunksize=4)
    pend = []
    for case, o in zip(cases, outs):
        chk.programs += 1
        if case["nnodes"] > 1:
            chk.nontrivial.add(case["id"])
        if o["stats"]:
            absorb_stats(chk, o["stats"])
        chk.oblige(True, max(o["obl"] - len(o["cands"]) - len(o["undecided"]), 0))
        for u in o["undecided"]:
            chk.undecide("%s %s" % (case["id"], u), "solver unknown")
        seen = set()
        for sig, what in o["findings"]:
            if sig in seen:
                continue
            seen.add(sig)
            chk.report("C09/" + sig, "%s: %s" % (case["id"], what),
                       {"kind": "panic" if sig == "panic" else "structural", "case": {"id": case["id"], "steps": case["steps"]}, "meta": case["meta"]})
        for c in o["cands"]:
            pend.append((case, c))
        if o["points"]:
            pend.append((case, {"kind": "validate", "points": o["points"]}))
        if len(chk.samples) < 4 and case["nnodes"] > 4:
            chk.sample({"case": case["id"], "meta": case["meta"], "nodes": case["nnodes"], "obligations": o["obl"]})
    # native confirmation
    rcases = []
    for i, (case, c) in enumerate(pend):
        pts = c["points"] if c["kind"] == "validate" else [c["point"]]
        T0 = None
        steps = case["steps"][:case["nt"] + 2] + [{"op": "eval", "tree": "t", "points": [[hex_of_float(float(FR(s))) for s in p] for p in pts]}]
        rcases.append({"id": "r%d" % i, "steps": steps})
    rres = run_driver(rcases, tag="c09r") if rcases else {}
    for i, (case, c) in enumerate(pend):
        res = rres["r%d" % i]
        nt = case["nt"]
        T = Tree(res[nt]["out"])
        stream = res[nt + 1]["out"]["items"]
        reported = {}
        for it in stream:
            rows = []
            for pj in it["polys"]:
                M, cc = aff_from_json(pj)
                rows += [Con(r, b, False) for r, b in zip(M, cc)]
            reported[it["index"]] = rows
        pts = c["points"] if c["kind"] == "validate" else [c["point"]]
        tp = T.pieces(conv)
        for ps, real in zip(pts, res[-1]["out"]):
            xf = [FR(float(FR(s))) for s in ps]
            if "panic" in real:
                chk.report("C09/find_terminal/panic", "%s: find_terminal panics at %s: %s" % (case["id"], ps, real["panic"]),
                           {"kind": "panic", "case": {"id": case["id"], "steps": rcases[i]["steps"]}, "meta": case["meta"]})
                continue
            # route natively
            route = [T.root]
            cur = T.root
            for l in real.get("labels", []):
                cur = T.nodes[cur].children[l] if cur is not None else None
                if cur is None:
                    break
                route.append(cur)
            if c["kind"] == "validate":
                chk.validation["points"] += 1
                d = compare_eval(real, tp, xf)
                if d is None:
                    chk.validation["agree"] += 1
                    # label sequence == path of the terminal returned
                    continue
                chk.report("C09/find_terminal/routing", "%s: at x=%s %s" % (case["id"], [float(v) for v in xf], d),
                           {"kind": "structural", "case": {"id": case["id"], "steps": rcases[i]["steps"]}, "meta": case["meta"], "point": point_hex(xf)})
                continue
            n = c["node"]
            desc = None
            if c["kind"] == "a":
                bad = [r for r in reported.get(n, []) if not r.holds(xf)]
                if n in route and bad:
                    desc = ("regions/routed-but-outside-reported", "x=%s is routed through node %d but violates its reported path condition %s" % (
                        [float(v) for v in xf], n, bad[0]))
            elif c["kind"] == "b":
                strict_in = all(sum(a * t for a, t in zip(r.a, xf)) < r.b for r in reported.get(n, []))
                if strict_in and n not in route:
                    desc = ("regions/inside-but-not-routed", "x=%s lies strictly inside the reported polytope of node %d but is routed via %s" % (
                        [float(v) for v in xf], n, route))
            elif c["kind"] == "c":
                both = all(sum(a * t for a, t in zip(r.a, xf)) < r.b for r in reported[n] + reported[c["node2"]])
                if both:
                    desc = ("regions/overlap", "terminals %d and %d: reported interiors share x=%s" % (n, c["node2"], [float(v) for v in xf]))
            elif c["kind"] == "d":
                if all(any(not r.holds(xf) for r in reported[t]) for t in T.terminals() if t in reported):
                    desc = ("regions/no-cover", "total tree: x=%s lies in no terminal's reported closed region" % ([float(v) for v in xf],))
            if desc is None:
                chk.unreplayed.append("%s (%s) at %s: not confirmed natively" % (case["id"], c["kind"], ps))
            else:
                chk.report("C09/" + desc[0], "%s: %s" % (case["id"], desc[1]),
                           {"kind": "structural", "case": {"id": case["id"], "steps": rcases[i]["steps"]}, "meta": case["meta"], "point": point_hex(xf)})
    chk.cov["rule"] = ("binary trees: every shape with <= 2 decisions, (quick: 60 seeded / thorough: all) shapes with 3, seeded shapes "
                       "with 3-4 decisions, total and partial, half with scrambled arena layout; predicates with parallel, coincident "
                       "and zero rows; streams with every single skip position (and every pair of positions on a quarter / all); "
                       "non-trivial = more than one node")
    chk.cov["explanation"] = ("per node n of each tree z3 decides (a) routed through n => inside every reported path condition, "
                              "(b) strictly inside the reported polytope => routed through n, (c) reported interiors of distinct "
                              "terminals are disjoint, (d) total trees: reported closed terminal regions cover R^n; routing is the "
                              "calibrated encoding of evaluate_decision, confirmed by the real find_terminal at solver-chosen interior "
                              "and on-hyperplane points (label sequence, terminal, value); stream order, depth, sibling counters and "
                              "path conditions under skips are compared with a DFS derived from the exported links")
    chk.cov["bounds"] = {"decisions": 4, "dims": "<=3", "skip_positions": "all singles, all pairs (on 1/4 of the trees in quick)"}
    chk.assumptions += ["inputs: all reals (solver); trees and skip schedules: enumerated/seeded"]
    return chk.finish()


if __name__ == "__main__":
    run_main(main)

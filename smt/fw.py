"""Check framework: tiers, seeds, evidence, known findings, replay, exit codes (DESIGN section 4)."""
import hashlib
import json
import os
import random
import sys
import time
import traceback
from fractions import Fraction

import z3

from core import (VERIF, REPO, Q, Tree, Convention, DOC_CONV, Malfunction, EncoderError, run_driver, build_driver,
                  hex_of_float, float_of_hex, aff_json, zconds, zcon, zlin, zfrac, eval_pieces, Stats,
                  repo_blob_hashes, fr_to_hex, F, Con)

KNOWN_FILE = os.path.join(VERIF, "known_findings.json")
VALUE_TOL = Fraction(1, 10**9)


def tier():
    t = os.environ.get("VERIF_TIER", "quick")
    return t if t in ("quick", "thorough") else "quick"


def seed():
    try:
        return int(os.environ.get("VERIF_SEED", "0"))
    except ValueError:
        return 0


def load_known():
    try:
        with open(KNOWN_FILE) as f:
            return json.load(f)["findings"]
    except FileNotFoundError:
        return []


class Check:
    def __init__(self, pid, level, functions, engine="T"):
        self.pid = pid
        self.level = level
        self.functions = functions
        self.engine = engine
        self.t0 = time.time()
        self.tier = tier()
        self.seed = seed()
        self.rng = random.Random(self.seed * 1000003 + sum(ord(c) for c in pid))
        self.stats = Stats()
        self.cov = {}                 # free-form coverage numbers
        self.samples = []
        self.assumptions = []
        self.violations = []          # (signature, what, replay_path)
        self.known_hits = {}          # signature -> (what, count)
        self.undecided = []
        self.canaries = {"expected_sat": 0, "fired": 0}
        self.tolerance_band = 0
        self.unreplayed = []
        self.malfunctions = []
        self.known = [k for k in load_known() if k["property"] == pid]
        self.obligations = 0
        self.discharged = 0
        self.programs = 0
        self.nontrivial = set()
        self.validation = {"points": 0, "agree": 0, "skipped_unrepresentable": 0}
        if self.tier == "thorough" and engine != "K":
            xdir = os.path.join(VERIF, "build", "xcheck", pid)
            os.makedirs(xdir, exist_ok=True)
            for f in os.listdir(xdir):
                os.unlink(os.path.join(xdir, f))
            os.environ["VERIF_XCHECK_DIR"] = xdir

    # ------------------------------------------------------------------ bookkeeping
    def sample(self, obj):
        if len(self.samples) < 8:
            self.samples.append(obj)

    def count(self, key, n=1):
        self.cov[key] = self.cov.get(key, 0) + n

    def oblige(self, ok=True, n=1):
        self.obligations += n
        if ok:
            self.discharged += n

    def undecide(self, name, why):
        self.obligations += 1
        if len(self.undecided) < 50:
            self.undecided.append({"obligation": name, "reason": why})
        self.count("undecided")

    def report(self, signature, what, replay_obj):
        """a violation that has been reproduced against the real build"""
        self.obligations += 1
        for k in self.known:
            if k.get("status") == "known" and k["signature"] == signature:
                w, c = self.known_hits.get(signature, (k["what"], 0))
                self.known_hits[signature] = (w, c + 1)
                return "known"
        if any(v[0] == signature for v in self.violations) and len(self.violations) > 20:
            return "dup"
        h = hashlib.sha1(json.dumps(replay_obj, sort_keys=True, default=str).encode()).hexdigest()[:12]
        path = os.path.join(VERIF, "replays", "%s-%s.json" % (self.pid, h))
        replay_obj = dict(replay_obj)
        replay_obj["property"] = self.pid
        replay_obj["signature"] = signature
        replay_obj["what"] = what
        os.makedirs(os.path.dirname(path), exist_ok=True)
        with open(path, "w") as f:
            json.dump(replay_obj, f, indent=1, default=str)
        self.violations.append((signature, what, path))
        return "violation"

    def malfunction(self, msg):
        self.malfunctions.append(msg)

    # ------------------------------------------------------------------ second opinion (thorough tier)
    def cross_check(self):
        """re-decide the dumped sample of queries with /usr/bin/z3 (4.8.12) and cvc5 and compare the verdicts"""
        import glob
        import subprocess
        xdir = os.environ.get("VERIF_XCHECK_DIR")
        if not xdir or not os.path.isdir(xdir):
            return
        files = sorted(glob.glob(os.path.join(xdir, "*.smt2")))[:400]
        if not files:
            return
        agree = {"z3-4.8.12": 0, "cvc5": 0}
        inconclusive = {"z3-4.8.12": 0, "cvc5": 0}
        for f in files:
            want = os.path.basename(f).split("-")[0]
            for name, cmd in (("z3-4.8.12", ["/usr/bin/z3", "-T:20", f]), ("cvc5", ["cvc5", "--lang", "smt2", "--tlimit=20000", f])):
                try:
                    r = subprocess.run(cmd, stdout=subprocess.PIPE, stderr=subprocess.STDOUT, text=True, timeout=40)
                    lines = [l.strip() for l in r.stdout.splitlines() if l.strip()]
                    verdicts = [l for l in lines if l in ("sat", "unsat", "unknown")]
                    got = verdicts[0] if verdicts else "?"
                    if any(l.startswith("(error") for l in lines):
                        got = "error"
                except subprocess.TimeoutExpired:
                    got = "timeout"
                if got == want:
                    agree[name] += 1
                elif got in ("sat", "unsat"):
                    keep = os.path.join(VERIF, "replays", "xcheck-%s-%s" % (self.pid, os.path.basename(f)))
                    import shutil
                    shutil.copy(f, keep)
                    self.malfunction("solvers disagree on %s: z3 5.1 says %s, %s says %s" % (keep, want, name, got))
                else:
                    inconclusive[name] += 1
        self.cov["cross_solver"] = {"queries_rechecked": len(files), "agree": agree, "inconclusive": inconclusive}
        for f in glob.glob(os.path.join(xdir, "*.smt2")):
            os.unlink(f)

    # ------------------------------------------------------------------ finish
    def finish(self):
        self.cross_check()
        wall = time.time() - self.t0
        cov = dict(self.cov)
        cov.update({
            "programs": max(self.programs, 0),
            "disagreements_checked": len(self.violations) + sum(c for _, c in self.known_hits.values()) + len(self.unreplayed),
            "obligations": self.obligations,
            "discharged": self.discharged,
            "evaluations": max(self.programs, self.obligations, 1),
            "distinct_nontrivial": len(self.nontrivial),
            "queries": self.stats.as_dict(),
            "undecided": self.undecided,
            "canaries": self.canaries,
            "tolerance_band_cases": self.tolerance_band,
            "translator_validation": self.validation,
            "unreplayed": self.unreplayed[:10],
            "known_findings_hit": [{"signature": s, "what": w, "count": c} for s, (w, c) in self.known_hits.items()],
            "violations_found": [{"signature": s, "what": w, "replay": p} for s, w, p in self.violations[:20]],
            "functions_executed": repo_blob_hashes(self.functions),
            "engine": self.engine,
            "samples": (self.samples + self.stats.samples)[:10] or ["none"],
            "exhaustive": False,
            "malfunctions": self.malfunctions[:10],
            "driver_build_s": round(float(__import__("core")._built.get("dev_s", 0.0)), 1),
        })
        if "rule" not in cov:
            cov["rule"] = "see coverage.explanation"
        ev = {
            "property_id": self.pid,
            "tier": self.tier,
            "seed": self.seed,
            "level": self.level,
            "coverage": cov,
            "assumptions": self.assumptions,
            "wall_s": round(wall, 2),
            "violations": len(self.violations),
        }
        os.makedirs(os.path.join(VERIF, "evidence"), exist_ok=True)
        with open(os.path.join(VERIF, "evidence", self.pid + ".json"), "w") as f:
            json.dump(ev, f, indent=1, default=str)
        for s, (w, c) in self.known_hits.items():
            print("KNOWN-FINDING: property=%s %s [signature=%s, %d case(s)]" % (self.pid, w, s, c))
        if self.undecided and len(self.undecided) * 4 > max(self.obligations, 1):
            print("UNDECIDED property=%s n=%d/%d" % (self.pid, len(self.undecided), self.obligations))
        if self.malfunctions or self.unreplayed:
            for m in self.malfunctions[:5]:
                print("MALFUNCTION property=%s %s" % (self.pid, m))
            for u in self.unreplayed[:5]:
                print("UNREPLAYED property=%s %s" % (self.pid, u))
        seen = set()
        for s, w, p in self.violations:
            if s in seen:
                continue
            seen.add(s)
            print("VIOLATION property=%s replay=%s  (%s: %s)" % (self.pid, p, s, w))
        print("%s %s: %d obligations, %d discharged, %d undecided, queries %s, %d violation(s), %d known finding(s), %.1fs"
              % (self.pid, self.tier, self.obligations, self.discharged, len(self.undecided), self.stats.as_dict(),
                 len(self.violations), len(self.known_hits), wall))
        if self.violations:
            return 1
        if self.malfunctions or self.unreplayed:
            return 2
        return 0


# ----------------------------------------------------------------------------- calibration (DESIGN 4.5)

def calibrate():
    """observe the routing convention of the real evaluate_decision"""
    one = hex_of_float(1.0)
    cases = [{"id": "cal2", "steps": [
        {"op": "from_aff", "name": "t", "k": 2, "aff": aff_json([[1]], [0])},
        {"op": "add_child", "tree": "t", "parent": 0, "label": 0, "aff": aff_json([[0]], [0])},
        {"op": "add_child", "tree": "t", "parent": 0, "label": 1, "aff": aff_json([[0]], [1])},
        {"op": "eval_decision", "tree": "t", "node": 0, "points": [[hex_of_float(-1.0)], [hex_of_float(0.0)], [one]]},
    ]}, {"id": "cal4", "steps": [
        {"op": "from_aff", "name": "t", "k": 4, "aff": aff_json([[1, 0], [0, 1]], [0, 0])},
        {"op": "add_child", "tree": "t", "parent": 0, "label": 0, "aff": aff_json([[0, 0]], [0])},
        {"op": "eval_decision", "tree": "t", "node": 0,
         "points": [[hex_of_float(-1.0), one], [one, hex_of_float(-1.0)], [hex_of_float(-1.0), hex_of_float(-1.0)], [one, one]]},
    ]}]
    res = run_driver(cases, tag="cal")
    r2 = res["cal2"][3]
    r4 = res["cal4"][2]
    if not r2["ok"] or not r4["ok"]:
        raise Malfunction("calibration cases panic: %s %s" % (r2.get("panic"), r4.get("panic")))
    lm, l0, lp = r2["out"]
    obs = {"k2": r2["out"], "k4": r4["out"]}
    if lm == lp or lm not in (0, 1) or lp not in (0, 1) or l0 not in (0, 1):
        return None, obs
    inside_set = (lm == 1)
    on_plane_set = (l0 == lm) if inside_set else (l0 != lm)
    a, b, both, none = r4["out"]
    # documented: row0 satisfied only -> 1, row1 satisfied only -> 2, both -> 3, none -> 0
    sat_bit = 1 if inside_set else 0
    if inside_set:
        if (a, b, both, none) == (1, 2, 3, 0):
            order = (0, 1, 2)
        elif (a, b, both, none) == (2, 1, 3, 0):
            order = (1, 0, 2)
        else:
            return None, obs
    else:
        if (a, b, both, none) == (2, 1, 0, 3):
            order = (0, 1, 2)
        elif (a, b, both, none) == (1, 2, 0, 3):
            order = (1, 0, 2)
        else:
            return None, obs
    return Convention(on_plane_set=on_plane_set, bit_of_row=order, inside_set=inside_set), obs


def get_convention(chk):
    conv, obs = calibrate()
    chk.cov["routing_convention_observed"] = obs
    if conv is None:
        raise Malfunction("the real evaluate_decision follows no single routing convention: %s" % obs)
    chk.cov["routing_convention"] = conv.describe()
    if not conv.documented():
        chk.cov["routing_convention_note"] = "differs from the documented one (row satisfied with <= sets bit i); C09 reports that"
    return conv


# ----------------------------------------------------------------------------- points for validation / replay

def representable(m):
    return all(Fraction(float(v)) == v for v in m)


def point_hex(m):
    return [hex_of_float(float(v)) for v in m]


def interior_and_boundary_points(q, pieces, max_pieces=64, rng=None):
    """solver-chosen points: one strictly inside every piece and one on every closed bounding hyperplane"""
    xs = q.xs
    pts = []
    ps = pieces if len(pieces) <= max_pieces else (rng or random).sample(pieces, max_pieces)
    for p in ps:
        strict = [(zlin(c.a, xs) > zfrac(c.b)) if c.strict else (zlin(c.a, xs) < zfrac(c.b)) for c in p.conds]
        m, ok = q.witness_f64(strict)
        if m is not None and ok:
            pts.append(m)
        for j, c in enumerate(p.conds):
            if c.strict:
                # a point a hair (2^-34 < 1e-8) on the strict side of the hyperplane: must still be routed here
                if any(c.a):
                    # small coordinates only: there the f64 evaluation of a.x - b resolves 2^-34 exactly
                    near = [zcon(d, xs) for i, d in enumerate(p.conds) if i != j] + [zlin(c.a, xs) == zfrac(c.b + Fraction(1, 2**34))] + [
                        z3.And(x <= 4, x >= -4) for x in xs]
                    m, ok = q.witness_f64(near, grid_bits=40)
                    if m is not None and ok:
                        pts.append(m)
                continue
            eqs = [zcon(d, xs) for i, d in enumerate(p.conds) if i != j] + [zlin(c.a, xs) == zfrac(c.b)]
            m, ok = q.witness_f64(eqs)
            if m is not None and ok:
                pts.append(m)
    return pts


AMBIGUOUS_SKIPPED = [0]


def _lowbit_exp(v):
    """exponent k of the lowest set bit of the dyadic rational v != 0 (v = odd * 2^k)"""
    v = Fraction(v)
    k = 0
    n, d = abs(v.numerator), v.denominator
    while n % 2 == 0:
        n //= 2
        k += 1
    while d % 2 == 0:
        d //= 2
        k -= 1
    return k if d == 1 else None


def routing_ambiguous(conds, x):
    """is the f64 evaluation of some a.x - b on this path not guaranteed to have the sign of the exact value?
    (the exact value is within the rounding error of 0, or it is 0 and the f64 computation is not exact in every
    summation order).  Such a point cannot validate the translator: exact and f64 routing may legitimately differ."""
    for c in conds:
        if not any(c.a):
            continue
        terms = [Fraction(a) * Fraction(v) for a, v in zip(c.a, x) if a != 0 and v != 0]
        mag = sum(abs(t) for t in terms) + abs(c.b)
        s = sum(terms) - c.b
        err = mag * (len(terms) + 2) * Fraction(1, 2**52)
        if s != 0:
            if abs(s) <= err:
                return True
            continue
        ks = [_lowbit_exp(t) for t in terms + ([c.b] if c.b != 0 else [])]
        if any(k is None for k in ks):
            return True
        if ks and mag / Fraction(2) ** min(ks) >= 2**53:
            return True
    return False


def compare_eval(real, pieces, x, tol=VALUE_TOL):
    """compare one result of the driver's `eval` with the exact piece semantics at rational x.
    returns None if they agree, else a description"""
    d = _compare_eval(real, pieces, x, tol)
    if d is not None and "panic" not in real:
        p, _ = eval_pieces(pieces, x)
        if routing_ambiguous(p.conds, x):
            AMBIGUOUS_SKIPPED[0] += 1
            return None
    return d


def _compare_eval(real, pieces, x, tol=VALUE_TOL):
    if "panic" in real:
        p, val = eval_pieces(pieces, x)
        if p.tag == "panic":
            return None
        return "real evaluation panics (%s), encoding says %s" % (real["panic"], "undefined" if val is None else "defined")
    p, val = eval_pieces(pieces, x)
    if p.tag == "panic":
        return "encoding predicts a panic (label >= K), real evaluation returned %s" % real
    if val is None:
        return None if not real["defined"] else "real defined (terminal %s), encoding undefined" % real.get("terminal")
    if not real["defined"]:
        return "real undefined, encoding defined (terminal %s)" % p.node
    if p.node is not None and real["terminal"] != p.node:
        return "real terminal %s, encoding terminal %s" % (real["terminal"], p.node)
    if p.path is not None and real["labels"] != [l for _, l in p.path]:
        return "real labels %s, encoding labels %s" % (real["labels"], [l for _, l in p.path])
    rv = [Fraction(float_of_hex(h)) if float_of_hex(h) == float_of_hex(h) and abs(float_of_hex(h)) != float("inf") else None
          for h in real["value"]]
    if len(rv) != len(val):
        return "real value has %d components, encoding %d" % (len(rv), len(val))
    for a, b in zip(rv, val):
        if a is None or abs(a - b) > tol * (1 + abs(b)):
            return "real value %s, encoding value %s" % ([float_of_hex(h) for h in real["value"]], [float(v) for v in val])
    if not real.get("evaluate_agrees", True):
        return "evaluate() and find_terminal()+apply disagree"
    return None


def value_mismatch(real, expected, tol=VALUE_TOL):
    """real: driver eval result; expected: None (undefined) or list of Fractions. Returns description or None"""
    if "panic" in real:
        return "real evaluation panics: %s" % real["panic"]
    if expected is None:
        return None if not real["defined"] else "defined (value %s) where the reference is undefined" % (
            [float_of_hex(h) for h in real["value"]],)
    if not real["defined"]:
        return "undefined where the reference is %s" % ([float(v) for v in expected],)
    rv = [float_of_hex(h) for h in real["value"]]
    if len(rv) != len(expected):
        return "value has %d components, reference %d" % (len(rv), len(expected))
    for a, b in zip(rv, expected):
        if a != a or abs(a) == float("inf") or abs(Fraction(a) - b) > tol * (1 + abs(b)):
            return "value %s, reference %s" % (rv, [float(v) for v in expected])
    return None


def run_main(fn):
    """wrap a property main(): exit codes per DESIGN 4.3"""
    try:
        code = fn()
    except Malfunction as e:
        print("MALFUNCTION %s" % e)
        code = 2
    except Exception:
        traceback.print_exc()
        code = 2
    sys.stdout.flush()
    sys.exit(code)


# ----------------------------------------------------------------------------- generic "tree == reference pieces" machinery

class Target:
    """one equivalence obligation: the tree exported at result step `export_step` (named `tree`, valid after
    steps[:upto]) must equal the reference piece list for all inputs.
    eps: None = exact, else absolute tolerance (rounding regime); box: None or bound on |x_i| (rounding regime);
    tighten: None or tau -> iterate over *reference* pieces tightened by tau (LP-tolerance policy)"""

    def __init__(self, label, tree, export, upto, ref, eps=None, box=None, tighten=None, sig="value", extra_fn=None):
        self.label, self.tree, self.export, self.upto, self.ref = label, tree, export, upto, ref
        self.eps, self.box, self.tighten, self.sig = eps, box, tighten, sig
        self.extra_fn = extra_fn      # xs -> extra z3 constraints on the input (e.g. 'away from the breakpoints of the reference')


def solve_targets(targets, conv, in_dim, want_points=False, rng=None, canary=False):
    """returns dict with candidates (solver witnesses), undecided, stats, validation points, canary verdict"""
    from core import find_difference, Piece, Aff
    q = Q(in_dim)
    out = {"cands": [], "undecided": [], "points": [], "canary": None, "pieces": 0, "thin": 0}
    for ti, t in enumerate(targets):
        tr = Tree(t.export)
        tp = tr.pieces(conv)
        out["pieces"] += len(tp)
        extra = []
        if t.box is not None:
            extra = [z3.And(x <= t.box, x >= -t.box) for x in q.xs]
        if t.extra_fn is not None:
            extra = extra + list(t.extra_fn(q.xs))
        if t.tighten is not None:
            bad = find_difference(q, t.ref, tp, eps=t.eps, tighten=t.tighten, extra=extra, tag=t.label)
            # count reference pieces that are non-empty but too thin to contain a tightened point
        else:
            bad = find_difference(q, tp, t.ref, eps=t.eps, extra=extra, tag=t.label)
        for f, asserts, verdict in bad:
            if verdict == "unknown":
                out["undecided"].append("%s piece at node %s" % (t.label, f.node))
                continue
            m, ok = q.witness_f64(asserts)
            out["cands"].append({"target": ti, "point": [str(v) for v in m] if m else None, "exact_f64": ok})
        if canary and out["canary"] is None:
            for i, p_ in enumerate(t.ref):
                if p_.val is not None and p_.val.outdim > 0:
                    conds = zconds(p_.conds, q.xs) if t.tighten is None else [
                        __import__("core").zclosed(c.closed(-t.tighten), q.xs) for c in p_.conds]
                    r0, _ = q.check(conds + extra)
                    if r0 == "sat":
                        c2 = list(p_.val.c)
                        c2[0] = c2[0] + 1
                        wrong = t.ref[:i] + [Piece(p_.conds, Aff(p_.val.M, c2, p_.val.n))] + t.ref[i + 1:]
                        if t.tighten is not None:
                            out["canary"] = len(find_difference(q, wrong, tp, eps=t.eps, tighten=t.tighten, extra=extra)) > 0
                        else:
                            out["canary"] = len(find_difference(q, tp, wrong, eps=t.eps, extra=extra)) > 0
                        break
        if want_points:
            pts = interior_and_boundary_points(q, tp, max_pieces=10, rng=rng)
            out["points"].append((ti, [[str(v) for v in m] for m in pts]))
    out["stats"] = (q.stats.sat, q.stats.unsat, q.stats.unknown, q.stats.solver_s, q.stats.samples)
    return out


def absorb_stats(chk, tup):
    st = Stats()
    st.sat, st.unsat, st.unknown, st.solver_s, st.samples = tup
    chk.stats.add(st)


def replay_targets(chk, items, conv, sig_prefix, describe=None):
    """items: list of (case, targets, solve_out). Runs solver witnesses and validation points through the real
    code (one driver run) and reports reproduced violations."""
    rcases = []
    index = []
    for ci, (case, targets, so) in enumerate(items):
        for cand in so["cands"]:
            if cand["point"] is None:
                chk.unreplayed.append("%s: solver gave no model" % case["id"])
                continue
            t = targets[cand["target"]]
            rid = "r%d" % len(rcases)
            rcases.append({"id": rid, "steps": case["steps"][:t.upto] + [
                {"op": "eval", "tree": t.tree, "points": [[hex_of_float(float(Fraction(s))) for s in cand["point"]]]}]})
            index.append((rid, ci, cand["target"], "cand", [cand["point"]]))
        for ti, pts in so["points"]:
            if not pts:
                continue
            t = targets[ti]
            rid = "r%d" % len(rcases)
            rcases.append({"id": rid, "steps": case["steps"][:t.upto] + [
                {"op": "eval", "tree": t.tree, "points": [[hex_of_float(float(Fraction(s))) for s in p] for p in pts]}]})
            index.append((rid, ci, ti, "validate", pts))
    if not rcases:
        return
    rres = run_driver(rcases, tag="replay")
    for rid, ci, ti, kind, pts in index:
        case, targets, so = items[ci]
        t = targets[ti]
        r = rres[rid][-1]
        if not r["ok"]:
            chk.malfunction("replay of %s panics: %s" % (case["id"], r.get("panic")))
            continue
        tp = None
        for ps, real in zip(pts, r["out"]):
            xf = [Fraction(float(Fraction(s))) for s in ps]
            if kind == "validate":
                if tp is None:
                    tp = Tree(t.export).pieces(conv)
                chk.validation["points"] += 1
                d = compare_eval(real, tp, xf)
                if d is None:
                    chk.validation["agree"] += 1
                elif d.startswith("real evaluation panics"):
                    chk.report("%s/%s/evaluate-panics" % (sig_prefix, t.sig), "%s %s at x=%s: %s" % (case["id"], t.label, [float(v) for v in xf], d),
                               {"kind": "eval", "case": {"id": case["id"], "steps": case["steps"][:t.upto]}, "tree": t.tree,
                                "point": point_hex(xf), "expected": None, "meta": case.get("meta")})
                else:
                    chk.malfunction("encoding of %s/%s disagrees with the real evaluate at %s: %s" % (case["id"], t.label, ps, d))
                continue
            try:
                rp, exp = eval_pieces(t.ref, xf)
            except EncoderError as e:
                chk.malfunction("reference of %s/%s is not a partition: %s" % (case["id"], t.label, e))
                continue
            tol = VALUE_TOL if t.eps is None else t.eps
            d = value_mismatch(real, exp, tol=tol)
            if d is not None and t.tighten is not None:
                # LP-tolerance policy: only count it if the reference piece contains xf with margin tau/2
                inside = all((dot_(c.a, xf) - c.b >= t.tighten / 2 * l1_(c.a)) if c.strict else
                             (c.b - dot_(c.a, xf) >= t.tighten / 2 * l1_(c.a)) for c in rp.conds)
                if not inside:
                    d = None
            if d is None:
                chk.unreplayed.append("%s/%s at %s: solver witness does not reproduce natively" % (case["id"], t.label, ps))
                continue
            if "panic" in d:
                sig = "panic"
            elif exp is None or "undefined where" in d:
                sig = "definedness"
            else:
                sig = "value"
            extra_sig = describe(case, t, real, exp, xf) if describe else None
            full = "%s/%s/%s" % (sig_prefix, t.sig, extra_sig or sig)
            chk.report(full, "%s %s at x=%s: %s" % (case["id"], t.label, [float(v) for v in xf], d),
                       {"kind": "eval", "case": {"id": case["id"], "steps": case["steps"][:t.upto]}, "tree": t.tree,
                        "point": point_hex(xf), "expected": None if exp is None else [str(e) for e in exp],
                        "meta": case.get("meta")})


def dot_(a, x):
    return sum((ai * xi for ai, xi in zip(a, x)), Fraction(0))


def l1_(a):
    return sum((abs(v) for v in a), Fraction(0))


def _target_worker(args):
    modname, case, res, conv, canary, want_points = args
    mod = __import__(modname)
    try:
        targets, in_dim, findings = mod.build_targets(case, res, conv)
    except Exception as e:
        import traceback
        return {"id": case["id"], "error": "%s: %s" % (e, traceback.format_exc()[-600:])}
    so = solve_targets(targets, conv, in_dim, want_points=want_points, canary=canary) if targets else {
        "cands": [], "undecided": [], "points": [], "canary": None, "pieces": 0, "stats": (0, 0, 0, 0.0, [])}
    so["id"] = case["id"]
    so["findings"] = findings
    so["ntargets"] = len(targets)
    return so


def run_target_check(chk, cases, modname, sig_prefix, conv, canary_every=10, tag="t", describe=None, procs=16):
    """generic flow: driver run -> per case targets -> solver -> native replay; returns dict id -> (case, res, so)"""
    from multiprocessing import Pool
    mod = __import__(modname)
    results = run_driver([{"id": c["id"], "steps": c["steps"]} for c in cases], tag=tag)
    jobs = [(modname, c, results[c["id"]], conv, i % canary_every == 0, i % canary_every == 0) for i, c in enumerate(cases)]
    if procs > 1 and len(jobs) > 8:
        with Pool(procs) as pool:
            outs = pool.map(_target_worker, jobs, chunksize=max(1, min(8, len(jobs) // (procs * 4) or 1)))
    else:
        outs = [_target_worker(j) for j in jobs]
    items = []
    ret = {}
    for case, so in zip(cases, outs):
        chk.programs += 1
        if "error" in so:
            chk.malfunction("%s: encoder error %s" % (case["id"], so["error"]))
            continue
        absorb_stats(chk, so["stats"])
        chk.count("pieces", so["pieces"])
        chk.count("targets", so["ntargets"])
        if so["pieces"] > so["ntargets"]:
            chk.nontrivial.add(case["id"])
        chk.oblige(True, max(so["pieces"] - len(so["cands"]) - len(so["undecided"]), 0))
        for u in so["undecided"]:
            chk.undecide("%s: %s" % (case["id"], u), "solver unknown/timeout")
        if so["canary"] is not None:
            chk.canaries["expected_sat"] += 1
            chk.canaries["fired"] += 1 if so["canary"] else 0
        for sig, what, kind in so["findings"]:
            chk.report("%s/%s" % (sig_prefix, sig), "%s: %s" % (case["id"], what),
                       {"kind": kind, "case": {"id": case["id"], "steps": case["steps"]}, "meta": case.get("meta")})
        targets, _, _ = mod.build_targets(case, results[case["id"]], conv) if (so["cands"] or so["points"]) else ([], 0, [])
        if so["cands"] or so["points"]:
            items.append((case, targets, so))
        if len(chk.samples) < 4 and so["pieces"] > 2:
            chk.sample({"case": case["id"], "meta": case.get("meta"), "pieces": so["pieces"],
                        "steps": [s["op"] for s in case["steps"]]})
        ret[case["id"]] = (case, results[case["id"]], so)
    if chk.canaries["expected_sat"] and chk.canaries["fired"] != chk.canaries["expected_sat"]:
        chk.malfunction("canary (deliberately wrong reference) not refuted: %s" % chk.canaries)
    replay_targets(chk, items, conv, sig_prefix, describe=describe)
    return ret


def step_panics(res, upto=None):
    return [(i, r["panic"]) for i, r in enumerate(res[:upto]) if not r["ok"]]

"""C15 Constraint clean-up keeps exactly the same point set (DESIGN 5, C15).
Engine L decides the generic routines (remove_tautologies, remove_duplicate_rows, normalize, remove_zero_rows, remove_rows)
with symbolic systems; this file holds the engine T part for the LP-based remove_redundant_row_constraints and merges both."""
import json
import os
import subprocess
import sys
from fractions import Fraction
from multiprocessing import Pool

import z3

import gen
from c10 import gen_system, CATS, FARBOX
from core import Q, TAU, Con, VERIF, zclosed, zlin, zfrac, run_driver, aff_json, aff_from_json, l1
from fw import Check, run_main, absorb_stats, step_panics

FUNCTIONS = ["src/linalg/polyhedron.rs", "src/linalg/affine.rs", "src/linalg/impl_ops.rs"]
FR = Fraction


def make_cases(chk):
    rng = chk.rng
    quick = chk.tier == "quick"
    cases = []
    for i in range(360 if quick else 40000):
        cat = CATS[i % len(CATS)]
        n = rng.choice([1, 2, 2, 3] if quick else [1, 2, 2, 3, 3, 4])
        A, b = gen_system(rng, cat, n, not quick)
        if i % 5 == 0 and len(A) >= 2:      # exact duplicates and positively scaled copies
            A = [[FR(float(v)) for v in r] for r in A]      # the library sees the f64 rounding
            b = [FR(float(v)) for v in b]
            # the copy must be an exact multiple *as f64*: 3*fl(v) is not always representable, a power of two is
            k = 3 if all(FR(float(3 * v)) == 3 * v for v in A[1] + [b[1]]) else 2
            A.append([k * v for v in A[1]])
            b.append(k * b[1])
            A.insert(0, list(A[1]))
            b.insert(0, b[1])
        if i % 9 == 4 and A and any(A[0]):
            # a single half-space, alone or followed by looser copies of itself: the one row that matters must survive
            r0, v0 = A[0], b[0]
            A, b = [r0], [v0]
            if rng.random() < 0.6:
                A += [list(r0), [2 * t for t in r0]]
                b += [v0 + abs(v0) + 1, 2 * v0 + 3]
                A = [[FR(float(t)) for t in r] for r in A]
                b = [FR(float(t)) for t in b]
        cases.append({"id": "r%d" % i, "steps": [{"op": "redundant", "poly": aff_json(A, b, n)}], "A": A, "b": b,
                      "meta": {"category": cat, "n": n, "rows": len(A)}})
    return cases


def solve_case(args):
    case, res = args
    out = {"id": case["id"], "viol": [], "obl": 0, "undecided": [], "stats": None, "dropped": 0}
    ps = step_panics(res)
    if ps:
        out["viol"].append(("remove_redundant/panic", "panics: %s" % ps[0][1]))
        return out
    o = res[0]["out"]
    if o["result"] != "ok":
        out["viol"].append(("remove_redundant/error", "returned Err(%s)" % o.get("msg")))
        return out
    A, b, n = case["A"], case["b"], case["meta"]["n"]
    QA, Qb = aff_from_json(o["poly"])
    q = Q(n)
    xs = q.xs
    P = [Con(r, v, False) for r, v in zip(A, b)]
    near = [z3.And(x <= FARBOX, x >= -FARBOX) for x in xs]      # counter-witnesses where f64 can resolve the margin (see c10.FARBOX)
    canonical_empty = (QA == [[FR(0)] * n] and Qb == [FR(-1)])
    out["obl"] += 1
    if canonical_empty and not (len(A) == 1 and A == QA and b == Qb):
        # allowed only if the input system is infeasible (up to the LP tolerance)
        r, m = q.check([zclosed(c.closed(-TAU), xs) for c in P] + near, sample_tag="C15 replaced by empty => input empty up to tau (|x| <= 2^26)")
        if r == "sat":
            out["viol"].append(("remove_redundant/feasible-replaced-by-empty", "replaced by the canonical empty polytope although x=%s "
                                "satisfies every row with margin 1e-6" % [float(v) for v in m]))
        elif r == "unknown":
            out["undecided"].append("empty")
        out["stats"] = (q.stats.sat, q.stats.unsat, q.stats.unknown, q.stats.solver_s, q.stats.samples)
        return out
    # subsequence of the original rows
    kept = []
    j = 0
    for r_, v_ in zip(QA, Qb):
        while j < len(A) and not (A[j] == r_ and b[j] == v_):
            j += 1
        if j == len(A):
            out["viol"].append(("remove_redundant/not-a-subsequence", "result row %s <= %s is not taken (in order) from the input rows" % (
                [float(t) for t in r_], float(v_))))
            out["stats"] = (q.stats.sat, q.stats.unsat, q.stats.unknown, q.stats.solver_s, q.stats.samples)
            return out
        kept.append(j)
        j += 1
    dropped = [i for i in range(len(A)) if i not in kept]
    out["dropped"] = len(dropped)
    Qc = [P[i] for i in kept]
    # same point set: no point of the result violates a dropped row by a margin
    for i in dropped:
        out["obl"] += 1
        if not any(A[i]):
            viol = [z3.BoolVal(0 > b[i])]
        else:
            viol = [zlin(A[i], xs) > zfrac(b[i] + TAU * l1(A[i]))]
        r, m = q.check([zclosed(c.closed(0), xs) for c in Qc] + viol + near, sample_tag="C15 dropped row implied by the kept ones (|x| <= 2^26)")
        if r == "sat":
            out["viol"].append(("remove_redundant/set-grew", "dropped row %d (%s <= %s) is not implied: x=%s satisfies all kept rows but violates it" % (
                i, [float(t) for t in A[i]], float(b[i]), [float(v) for v in m])))
        elif r == "unknown":
            out["undecided"].append("dropped %d" % i)
    # no kept row is implied by the other kept rows by a margin
    feas, _ = q.check([zclosed(c.closed(0), xs) for c in Qc], want_model=False)
    for pos, i in enumerate(kept):
        out["obl"] += 1
        others = [zclosed(P[k].closed(0), xs) for k in kept if k != i]
        if not any(A[i]):
            need = [z3.BoolVal(True)] if b[i] < 0 else None     # a zero row with b>=0 is a tautology: implied by anything
            r = "sat" if need else "unsat"
        else:
            r, _ = q.check(others + [zlin(A[i], xs) > zfrac(b[i] - TAU * l1(A[i]))], want_model=False,
                           sample_tag="C15 kept row not implied by margin")
        if r == "unsat" and feas == "sat":
            # role: was the LP that judged this row one with an unbounded optimal face? (known minilp defect, see C10)
            d = [z3.Real("d%d" % t) for t in range(n)]
            rl, _ = q.check([zlin(P[k].a, d) <= 0 for k in kept if k != i] + [zlin(A[i], d) == 0, z3.Or([t != 0 for t in d])], want_model=False)
            role = "optimal-face-unbounded" if rl == "sat" else "optimal-face-bounded"
            out["viol"].append(("remove_redundant/redundant-row-left/" + role, "kept row %d (%s <= %s) is implied by the other kept rows with "
                                "margin 1e-6" % (i, [float(t) for t in A[i]], float(b[i]))))
        elif r == "unknown":
            out["undecided"].append("kept %d" % i)
    out["stats"] = (q.stats.sat, q.stats.unsat, q.stats.unknown, q.stats.solver_s, q.stats.samples)
    return out


def run_T(chk):
    cases = make_cases(chk)
    results = run_driver([{"id": c["id"], "steps": c["steps"]} for c in cases], tag="c15")
    with Pool(16) as pool:
        outs = pool.map(solve_case, [(c, results[c["id"]]) for c in cases], chunksize=8)
    for case, o in zip(cases, outs):
        chk.programs += 1
        if o["dropped"]:
            chk.nontrivial.add(case["id"])
        if o["stats"]:
            absorb_stats(chk, o["stats"])
        chk.oblige(True, max(o["obl"] - len(o["viol"]) - len(o["undecided"]), 0))
        for u in o["undecided"]:
            chk.undecide("%s %s" % (case["id"], u), "solver unknown")
        seen = set()
        for sig, what in o["viol"]:
            if sig in seen:
                continue
            seen.add(sig)
            chk.report("C15/" + sig, "%s (%s): %s" % (case["id"], case["meta"], what),
                       {"kind": "structural", "case": {"id": case["id"], "steps": case["steps"]}, "meta": case["meta"]})
        if len(chk.samples) < 3 and o["dropped"]:
            chk.sample({"case": case["id"], "meta": case["meta"], "rows_dropped": o["dropped"]})
    chk.cov["T_systems"] = len(cases)


def run_L(chk):
    """engine L part: symbolic systems through the real generic routines (see /verif/lifted)"""
    sys.path.insert(0, os.path.join(VERIF, "lifted"))
    try:
        import run as lrun
    except ImportError:
        chk.cov["L_part"] = "not built"
        return
    lrun.run_into(chk, "C15")


def main():
    chk = Check("C15", "model_checking", FUNCTIONS, engine="L+T")
    run_L(chk)
    run_T(chk)
    chk.cov["states"] = max(chk.cov.get("L_paths_explored", 0), 1)
    chk.cov["transitions"] = max(chk.stats.sat + chk.stats.unsat + chk.stats.unknown, 1)
    chk.cov["traces_validated_against_impl"] = len(chk.violations) + sum(c for _, c in chk.known_hits.values())
    chk.cov["rule"] = ("engine L: symbolic systems (rows <= 3, dims <= 2/3) through remove_rows, remove_zero_rows, remove_tautologies, "
                       "normalize, remove_duplicate_rows, every path explored; engine T: constraint systems by category (as C10, plus "
                       "exact duplicates and scaled copies) through remove_redundant_row_constraints; non-trivial (T) = rows were dropped")
    chk.cov["explanation"] = ("engine L: the real generic routines run on a symbolic-real scalar, every branch is a solver query and on "
                              "every path z3 decides that result and input contain the same points and that result rows are a "
                              "subsequence of the input rows; engine T: z3 decides that no point of the result violates a dropped row by "
                              "a margin, that a canonical-empty result only replaces a system empty up to tau, and that no kept row is "
                              "implied by the other kept rows by a margin; subsequence by comparison of exported rows")
    chk.assumptions += ["engine T: points all reals (solver), systems seeded by category; counter-witnesses (a point the clean-up lost or "
                        "gained) are sought within |x_i| <= 2^26, where f64 resolves the 1e-6 margin", "engine L: exact real arithmetic in place of f64"]
    return chk.finish()


if __name__ == "__main__":
    run_main(main)

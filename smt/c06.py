"""C06 Infeasible-path elimination is effective and idempotent (DESIGN 5, C06)."""
from fractions import Fraction
from multiprocessing import Pool

import z3

import gen
import netref
from core import Q, Tree, TAU, Con, zclosed, zcon, zlin, zfrac, run_driver, aff_json
from fw import Check, get_convention, run_main, absorb_stats, step_panics
from hist import Hist

FUNCTIONS = ["src/pwl/impl_infeasible_elim.rs", "src/linalg/polyhedron.rs", "src/tree/graph.rs", "src/pwl/iter.rs",
             "src/distill/builder.rs"]
FR = Fraction


def make_cases(chk):
    rng = chk.rng
    quick = chk.tier == "quick"
    cases = []
    ops = ["compose_f_schema", "compose_f_schema", "compose_f_tree", "apply_func", "elim", "remove_axes"]
    for i in range(220 if quick else 16000):
        # every fourth pipeline has predicates with coefficients of 1e3..1e5: there the LP's vertex misses a half-space by more
        # than the absolute 1e-8 of contains(), phase_two has to repair it, and where the repair fails the node legitimately
        # stays Indeterminate ("less pruning", the situation of C11).  In that family the single-branch / idempotence clauses
        # are demanded only for nodes whose region is robustly fat (see fat_region), where the repair has no excuse.
        scale = rng.choice([FR(10**3), FR(10**4) * FR(7, 3), FR(10**5)]) if i % 4 == 1 else None
        h = Hist("p%d" % i, rng, max_ops=5, ops=ops, total=True, start=rng.choice(["tree", "aff", "poly"]), scale=scale)
        # pipelines end in: eliminate, export, eliminate again, export
        h._op("elim")
        b = h.export("t")
        h.steps.append({"op": "elim", "tree": "t"})
        a = h.export("t")
        c = h.case()
        c["final"] = (h.checkpoints[-1]["before"], b, a, len(h.steps) - 2)
        c["kind"] = "pipeline"
        c["scaled"] = scale is not None
        cases.append(c)
    # hand-built thin cascades (round 8, C06-c8): a decision d whose region is the flat/thin slab lo <= s.x <= hi, and below it a
    # branch that is empty by a gap between tau and 1e-4 - far more than the LP tolerance, but close enough for a witness
    # inherited "up to rounding" from the slab to be mistaken for a member
    FRc = Fraction
    for i, (width, gap, sgn) in enumerate([(FRc(0), FRc(1, 2**14), 1), (FRc(0), FRc(1, 2**15), -1), (FRc(1, 2**16), FRc(1, 2**14), 1),
                                           (FRc(0), FRc(3, 2**16), 1), (FRc(1, 2**17), FRc(1, 2**15), -1)][:5 if quick else 5]):
        n = 2
        A = lambda rows, b: aff_json(rows, b, n)
        term = lambda: A(gen.mat(rng, 1, n), gen.vec(rng, 1))
        s_ = FRc(sgn)
        ts = [{"op": "from_aff", "name": "t", "k": 2, "aff": A([[-s_, 0]], [0])},                     # 0: s.x >= 0
              {"op": "add_child", "tree": "t", "parent": 0, "label": 1, "aff": A([[s_, 0]], [width])},   # 1: s.x <= width
              {"op": "add_child", "tree": "t", "parent": 0, "label": 0, "aff": term()},
              {"op": "add_child", "tree": "t", "parent": 1, "label": 1, "aff": A([[s_, 0]], [-gap])},    # 3: s.x <= -gap: empty by gap
              {"op": "add_child", "tree": "t", "parent": 1, "label": 0, "aff": term()},
              {"op": "add_child", "tree": "t", "parent": 3, "label": 1, "aff": term()},
              {"op": "add_child", "tree": "t", "parent": 3, "label": 0, "aff": term()}]
        k = len(ts)
        steps = ts + [{"op": "export", "tree": "t"}, {"op": "elim", "tree": "t"}, {"op": "export", "tree": "t"},
                      {"op": "elim", "tree": "t"}, {"op": "export", "tree": "t"}]
        cases.append({"id": "thin%d" % i, "steps": steps, "kind": "pipeline", "scaled": False, "final": (k, k + 2, k + 4, k + 3),
                      "meta": {"word": ["hand-built thin cascade", "elim", "elim"], "in_dim": n, "width": float(width), "gap": float(gap)}})
    # distilled ReLU-type networks for the region-count clause
    for i in range(40 if quick else 2000):
        n = rng.choice([1, 2, 2, 3])
        w = rng.choice([2, 3]) if quick else rng.choice([2, 3, 4])
        layers = [{"t": "linear", "M": gen.mat(rng, w, n, pzero=0.1), "c": gen.vec(rng, w)}]
        def act():
            a = rng.choice(["relu", "relu", "relu", "leaky", "hardtanh", "hardsigmoid"])
            return {"t": a, "alpha": FR(1, 4)} if a == "leaky" else {"t": a}
        for r in range(w):
            layers.append(dict(act(), row=r))
        if rng.random() < 0.6 and w <= 3:
            w2 = rng.choice([1, 2])
            layers.append({"t": "linear", "M": gen.mat(rng, w2, w, pzero=0.1), "c": gen.vec(rng, w2)})
            for r in range(w2):
                layers.append(dict(act(), row=r))
        steps = [{"op": "layers", "name": "L", "layers": netref.layers_to_driver(layers)},
                 {"op": "from_layers", "name": "t", "dim": n, "layers": "L"}, {"op": "export", "tree": "t"}]
        cases.append({"id": "n%d" % i, "steps": steps, "kind": "network", "layers": layers, "n": n,
                      "meta": {"in_dim": n, "units": netref.n_units(layers)}})
    return cases


def pattern_regions(layers, n):
    """all activation patterns of a network with per-neuron activations: for each pattern the list of constraints (Con
    over the input); strictness as in the definitions (ReLU/leaky: active z > 0, inactive z <= 0; hard tanh / hard
    sigmoid: z > hi, z < lo, lo <= z <= hi)"""
    from core import Aff
    out = []

    def con(a, b, op):
        # a.x + b  op  0
        if op == ">":
            return Con(a, -b, True)
        if op == "<=":
            return Con(a, -b, False)
        if op == "<":
            return Con([-v for v in a], b, True)
        return Con([-v for v in a], b, False)      # >=

    def with_row(st, i, coef, bias):
        M = [list(r) for r in st.M]
        c = list(st.c)
        M[i] = [coef * v for v in st.M[i]]
        c[i] = coef * st.c[i] + bias
        return Aff(M, c, n)

    def rec(li, st, conds):
        if li == len(layers):
            out.append(conds)
            return
        l = layers[li]
        t = l["t"]
        if t == "linear":
            rec(li + 1, Aff(l["M"], l["c"], st.outdim).after(st), conds)
            return
        i = l["row"]
        a, b = st.M[i], st.c[i]
        if t in ("relu", "leaky"):
            rec(li + 1, st, conds + [con(a, b, ">")])
            rec(li + 1, with_row(st, i, FR(0) if t == "relu" else l["alpha"], FR(0)), conds + [con(a, b, "<=")])
        else:
            hi, lo = (FR(1), FR(-1)) if t == "hardtanh" else (FR(3), FR(-3))
            rec(li + 1, with_row(st, i, FR(0), FR(1)), conds + [con(a, b - hi, ">")])
            rec(li + 1, with_row(st, i, FR(0), FR(-1) if t == "hardtanh" else FR(0)), conds + [con(a, b - lo, "<")])
            mid = st if t == "hardtanh" else with_row(st, i, FR(1, 6), FR(1, 2))
            rec(li + 1, mid, conds + [con(a, b - hi, "<="), con(a, b - lo, ">=")])
    rec(0, Aff.identity(n), [])
    return out


FAT = FR(1, 1000)
BOX = 16


def fat_region(q, conds):
    """is there a point with |x_i| <= BOX that satisfies every path condition with geometric margin FAT*|a|_1 ?"""
    cs = [zclosed(c.closed(-FAT), q.xs) for c in conds]
    cs += [x <= BOX for x in q.xs] + [x >= -BOX for x in q.xs]
    r, _ = q.check(cs, want_model=False, sample_tag="C06 region robustly fat")
    return r == "sat"


def solve_case(args):
    case, res, conv = args
    out = {"id": case["id"], "viol": [], "obl": 0, "undecided": [], "stats": None, "nontrivial": False}
    ps = step_panics(res)
    if ps:
        out["viol"].append(("panic", "step %d panics: %s" % ps[0]))
        return out
    if case["kind"] == "pipeline":
        bi, ai, a2i, call2 = case["final"]
        B, A, A2 = Tree(res[bi]["out"]), Tree(res[ai]["out"]), Tree(res[a2i]["out"])
        out["nontrivial"] = len(B.nodes) > len(A.nodes)
        # the property speaks about trees whose decisions all have both branches (a pre-simplified operand with a constant
        # root predicate is a legitimate partial tree: its root keeps one branch and cannot be forwarded)
        if any(c is None for i in B.decisions() for c in B.nodes[i].children):
            out["precondition_not_met"] = True
            out["nontrivial"] = False
            return out
        q = Q(A.in_dim)
        for idx, nd in A.nodes.items():
            if idx == A.root:
                continue
            conds, _ = A.path_conds(idx, conv)
            out["obl"] += 1
            r, _ = q.check([zclosed(c.closed(TAU), q.xs) for c in conds], want_model=False,
                           sample_tag="C06 surviving node: relaxed region non-empty")
            if r == "unsat":
                out["viol"].append(("empty-node-survived", "node %d survives infeasible_elimination although its path region is empty "
                                    "even after relaxing every condition by 1e-6" % idx))
            elif r == "unknown":
                out["undecided"].append("node %d" % idx)
            if not nd.leaf and sum(1 for c in nd.children if c is not None) == 1:
                out["obl"] += 1
                only = [c for c in nd.children if c is not None][0]
                if case.get("scaled") and not fat_region(q, A.path_conds(only, conv)[0]):
                    out["carved"] = out.get("carved", 0) + 1
                else:
                    out["viol"].append(("single-branch-decision", "decision %d below the root is left with a single branch" % idx))
        out["obl"] += 2
        sa = [(n["idx"], n["leaf"], n["parent"], n["children"], n["mat"], n["bias"], n["state"]) for n in res[ai]["out"]["nodes"]]
        sa2 = [(n["idx"], n["leaf"], n["parent"], n["children"], n["mat"], n["bias"], n["state"]) for n in res[a2i]["out"]["nodes"]]
        cnt = res[call2]["out"]
        lp_excused = False
        if case.get("scaled") and (cnt["lps_solved"] != 0 or sa != sa2):
            # a node left Indeterminate (unrepaired LP vertex) is asked again by the second run: its LPs, and a verdict that
            # differs this time, are excused when every such node has a thin / far-away region
            ind = [i for i, nd in A.nodes.items() if i != A.root and nd.state == ("indeterminate",)]
            lp_excused = bool(ind) and not any(fat_region(q, A.path_conds(i, conv)[0]) for i in ind)
            if lp_excused:
                out["carved"] = out.get("carved", 0) + 1
        if sa != sa2:
            # with the excuse, only the states of the Indeterminate nodes (and what hangs below them) may differ
            same_but_states = ([t[:6] for t in sa] == [t[:6] for t in sa2])
            if not (lp_excused and (same_but_states or len(sa2) <= len(sa))):
                out["viol"].append(("not-idempotent", "a second infeasible_elimination changes the tree (%d -> %d nodes)" % (len(A.nodes), len(A2.nodes))))
        if cnt["lps_solved"] != 0 and not lp_excused:
            out["viol"].append(("second-run-solves-lps", "a second infeasible_elimination solved %d LPs" % cnt["lps_solved"]))
        out["stats"] = (q.stats.sat, q.stats.unsat, q.stats.unknown, q.stats.solver_s, q.stats.samples)
        return out
    # network: region count clause
    T = Tree(res[2]["out"])
    n = case["n"]
    q = Q(n)
    regs = pattern_regions(case["layers"], n)
    full = closed = 0
    for conds in regs:
        # full-dimensional: open region non-empty
        r1, _ = q.check([(zlin(c.a, q.xs) > zfrac(c.b)) if c.strict else (zlin(c.a, q.xs) < zfrac(c.b)) for c in conds], want_model=False)
        r2, _ = q.check([zclosed(c.closed(0), q.xs) for c in conds], want_model=False,
                        sample_tag="C06 closed activation region non-empty")
        if "unknown" in (r1, r2):
            out["undecided"].append("pattern")
            return out
        full += r1 == "sat"
        closed += r2 == "sat"
    nterm = len(T.terminals())
    out["obl"] += 1
    out["nontrivial"] = closed < len(regs)
    if not (full <= nterm <= closed):
        out["viol"].append(("region-count", "distilled network has %d terminals, but %d full-dimensional and %d non-empty closed "
                            "activation regions (of %d patterns)" % (nterm, full, closed, len(regs))))
    out["stats"] = (q.stats.sat, q.stats.unsat, q.stats.unknown, q.stats.solver_s, q.stats.samples)
    out["counts"] = (nterm, full, closed, len(regs))
    return out


def main():
    chk = Check("C06", "translation_validation", FUNCTIONS)
    conv = get_convention(chk)
    cases = make_cases(chk)
    results = run_driver([{"id": c["id"], "steps": c["steps"]} for c in cases], tag="c06")
    with Pool(16) as pool:
        outs = pool.map(solve_case, [(c, results[c["id"]], conv) for c in cases], chunksize=4)
    for case, o in zip(cases, outs):
        chk.programs += 1
        chk.count("cases_" + case["kind"])
        if o.get("precondition_not_met"):
            chk.count("pipelines_skipped_not_total")
        if case.get("scaled"):
            chk.count("pipelines_scaled")
        if o.get("carved"):
            chk.count("scaled_obligations_excused_thin_region", o["carved"])
        if o["nontrivial"]:
            chk.nontrivial.add(case["id"])
        if o["stats"]:
            absorb_stats(chk, o["stats"])
        chk.oblige(True, max(o["obl"] - len(o["viol"]) - len(o["undecided"]), 0))
        for u in o["undecided"]:
            chk.undecide("%s %s" % (case["id"], u), "solver unknown")
        seen = set()
        for sig, what in o["viol"]:
            if sig in seen:
                continue
            seen.add(sig)
            chk.report("C06/" + sig, "%s (%s): %s" % (case["id"], case["meta"], what),
                       {"kind": "panic" if sig == "panic" else "structural", "case": {"id": case["id"], "steps": case["steps"]}, "meta": case["meta"]})
        if len(chk.samples) < 4 and o["obl"] > 3:
            chk.sample({"case": case["id"], "meta": case["meta"], "obligations": o["obl"], "counts": o.get("counts")})
    chk.cov["rule"] = ("total trees only: seeded pipelines compose / apply_func / eliminate (<= 5 operations, from generated total trees, "
                       "affine maps with dependent rows, from_poly with else-branch), ending in two eliminations; five hand-built thin cascades "
                       "(flat / 2^-16 / 2^-17 slab above a branch empty by a gap of 2^-15 .. 2^-14); distilled ReLU "
                       "networks with <= 6 (7) units; non-trivial = the elimination removed something / some activation pattern is empty")
    chk.cov["explanation"] = ("after infeasible_elimination z3 decides for every surviving non-root node that its closed path region "
                              "relaxed by tau=1e-6 is non-empty; no decision below the root has a single branch; a second elimination "
                              "leaves the exported tree (states included) identical and solves no LP; for distilled networks z3 decides "
                              "for each of the 2^u activation patterns whether the open and the closed region are non-empty, and the "
                              "number of terminals must lie between the two counts")
    chk.cov["bounds"] = {"pipeline_length": 5, "relu_units": 6 if chk.tier == "quick" else 7, "dims": "<=3"}
    chk.assumptions += ["regions: all reals (solver); pipelines and networks: seeded", "only trees whose decisions all have both branches"]
    return chk.finish()


if __name__ == "__main__":
    run_main(main)

"""C05 Cached feasibility verdicts and witnesses stay sound across histories (DESIGN 5, C05)."""
from fractions import Fraction
from multiprocessing import Pool

import z3

import gen
from core import Q, Tree, TAU, CONTAINS_TOL, Con, zclosed, run_driver, aff_json, hex_of_float, F, dot, float_of_hex
from fw import Check, get_convention, run_main, absorb_stats, step_panics
from hist import Hist

FUNCTIONS = ["src/pwl/impl_infeasible_elim.rs", "src/pwl/node.rs", "src/pwl/impl_composition.rs", "src/pwl/afftree.rs",
             "src/pwl/impl_ops.rs", "src/pwl/impl_reduction.rs"]
FR = Fraction
SLACK = CONTAINS_TOL * (1 + FR(1, 10**6))
ROUND = FR(16, 2**53)


def make_cases(chk):
    rng = chk.rng
    quick = chk.tier == "quick"
    cases = []
    ops = ["compose_f_schema", "compose_f_schema", "compose_t_schema", "compose_f_tree", "compose_t_tree", "apply_func",
           "elim", "elim", "elim", "binop", "reduce", "neg", "remove_axes"]
    for i in range(260 if quick else 20000):
        scale = None if i % 4 else rng.choice([FR(10**6), FR(3 * 10**6), FR(10**7), FR(10**8)])
        if i % 9 == 4:
            h = Hist("h%d" % i, rng, n=2, max_ops=3, ops=["elim", "elim", "compose_f_schema", "apply_func", "compose_t_schema"],
                     export_all=True, start="wedge")
        else:
            h = Hist("h%d" % i, rng, max_ops=5 if quick else 6, ops=ops, export_all=True, scale=scale)
        if "elim" not in h.word:
            h._op("elim")
            h._op(rng.choice(["compose_f_schema", "compose_t_schema", "apply_func", "binop", "reduce"]))
            h._op("elim")
        cases.append(h.case())
    return cases


def mirror_cases(chk):
    rng = chk.rng
    quick = chk.tier == "quick"
    cases = []
    for i in range(200 if quick else 20000):
        n = rng.choice([1, 2, 2, 3])
        rows = rng.choice([1, 2, 3, 4])
        kind = rng.choice(["random", "box", "empty", "zero-row", "unbounded", "scaled"])
        A = [gen.nonzero_vec(rng, n) for _ in range(rows)]
        b = gen.vec(rng, rows)
        if kind == "box":
            A = [[FR(int(a == j)) for j in range(n)] for a in range(n)] + [[FR(-int(a == j)) for j in range(n)] for a in range(n)]
            b = [FR(1)] * (2 * n)
        elif kind == "empty" and rows >= 2:
            A[1] = [-v for v in A[0]]
            b[1] = -b[0] - 1
        elif kind == "zero-row":
            A[0] = [FR(0)] * n
            b[0] = rng.choice([FR(1), FR(0), FR(-1)])
        elif kind == "unbounded":
            A, b = A[:1], b[:1]
        elif kind == "scaled":
            s = rng.choice([FR(1024), FR(1, 1024), FR(4096)])
            A = [[s * v for v in r] for r in A]
            b = [s * v for v in b]
        npts = rng.choice([1, 1, 2, 3])
        pts = [[rng.choice([FR(0), FR(1), FR(-1), FR(1, 2), FR(5), FR(-7), FR(100)]) for _ in range(n)] for _ in range(npts)]
        if i % 5 == 0:
            # a start point 5e-11 (normalised) outside the first face, inside by a wide margin w.r.t. axis-parallel other rows:
            # the heuristic's own 1e-10 margin decides whether it is returned as is
            k = rng.choice([1000, 4096, 100000])
            A = [[FR(k)] + [FR(0)] * (n - 1)] + [[FR(0)] * j + [FR(-1)] + [FR(0)] * (n - 1 - j) for j in range(1, n)]
            b = [FR(k)] + [FR(0)] * (n - 1)
            kind = "hair-outside"
            pts = [[FR(1) + FR(5, 10**11)] + [FR(1)] * (n - 1)]
            npts = 1
        # points as columns
        P = [[pts[k][r] for k in range(npts)] for r in range(n)]
        it = rng.choice([1, 8, 20])
        st = {"op": "mirror_points", "poly": aff_json(A, b, n), "points": [[hex_of_float(float(v)) for v in r] for r in P], "n": it}
        cases.append({"id": "m%d" % i, "steps": [st], "A": A, "b": b, "meta": {"kind": kind, "n": n, "rows": len(A), "points": npts, "iter": it}})
    return cases


def check_history(args):
    case, res, conv = args
    out = {"id": case["id"], "viol": [], "obl": 0, "undecided": [], "stats": None, "states": {}, "panic": None}
    ps = step_panics(res)
    upto = len(res)
    if ps:
        out["panic"] = ps[0]
        upto = ps[0][0]
    for ei, label in case["exports"]:
        if ei >= upto:
            break
        T = Tree(res[ei]["out"])
        if T.structure_errors():
            continue
        q = Q(T.in_dim)
        for idx, nd in T.nodes.items():
            out["states"][nd.state[0]] = out["states"].get(nd.state[0], 0) + 1
            if nd.state[0] == "indeterminate" or idx == T.root and nd.state[0] != "infeasible":
                if nd.state[0] == "indeterminate":
                    continue
            conds, path = T.path_conds(idx, conv)
            if nd.state[0] == "witness":
                for w, wh in zip(nd.state[1], nd.state[2]):
                    out["obl"] += 1
                    if len(w) != T.in_dim:
                        out["viol"].append({"kind": "witness-dim", "node": idx, "export": ei, "after": label,
                                            "what": "witness of dimension %d in a tree with in_dim %d" % (len(w), T.in_dim)})
                        continue
                    wx = [FR(v) for v in w]
                    for c in conds:
                        a, b = c.closed(0)
                        d = b - dot(a, wx)
                        # 1e-8 containment tolerance plus the rounding budget of evaluating the row in f64 at this point
                        budget = SLACK + ROUND * (abs(b) + sum(abs(x * y) for x, y in zip(a, wx)))
                        if d < -budget:
                            out["viol"].append({"kind": "witness", "node": idx, "export": ei, "after": label, "witness": wh,
                                                "what": "stored witness %s violates path condition %s by %.3g" % (w, c, float(-d))})
                            break
            elif nd.state[0] == "infeasible":
                out["obl"] += 1
                asserts = [zclosed(c.closed(-TAU), q.xs) for c in conds]
                r, _ = q.check(asserts, sample_tag="C05 infeasible verdict: tightened region empty")
                if r == "sat":
                    m, _ = q.witness_f64(asserts)
                    out["viol"].append({"kind": "infeasible", "node": idx, "export": ei, "after": label, "point": [str(v) for v in m],
                                        "what": "node marked infeasible but x=%s lies in its path region with margin 1e-6" % [float(v) for v in m]})
                elif r == "unknown":
                    out["undecided"].append("export %d node %d infeasible" % (ei, idx))
            elif nd.state[0] == "feasible":
                out["obl"] += 1
                asserts = [zclosed(c.closed(TAU), q.xs) for c in conds]
                r, _ = q.check(asserts, want_model=False)
                if r == "unsat":
                    out["viol"].append({"kind": "feasible", "node": idx, "export": ei, "after": label,
                                        "what": "node marked feasible but its path region is empty even after relaxing by 1e-6"})
        st = q.stats
        if out["stats"] is None:
            out["stats"] = [0, 0, 0, 0.0, []]
        out["stats"][0] += st.sat
        out["stats"][1] += st.unsat
        out["stats"][2] += st.unknown
        out["stats"][3] += st.solver_s
        out["stats"][4] = (out["stats"][4] + st.samples)[:2]
    return out


def main():
    chk = Check("C05", "translation_validation", FUNCTIONS)
    conv = get_convention(chk)
    cases = make_cases(chk)
    results = run_driver([{"id": c["id"], "steps": c["steps"]} for c in cases], tag="c05")
    with Pool(16) as pool:
        outs = pool.map(check_history, [(c, results[c["id"]], conv) for c in cases], chunksize=4)
    states = {}
    for case, o in zip(cases, outs):
        chk.programs += 1
        for k, v in o["states"].items():
            states[k] = states.get(k, 0) + v
        if o["states"].get("witness", 0) + o["states"].get("infeasible", 0) > 0:
            chk.nontrivial.add(case["id"])
        if o["stats"]:
            absorb_stats(chk, tuple(o["stats"]))
        chk.oblige(True, max(o["obl"] - len(o["viol"]) - len(o["undecided"]), 0))
        for u in o["undecided"]:
            chk.undecide("%s %s" % (case["id"], u), "solver unknown")
        if o["panic"]:
            chk.count("histories_cut_short_by_panic")
        seen = set()
        for v in o["viol"]:
            sig = "C05/%s/after-%s" % (v["kind"], v["after"].split("(")[0])
            if sig in seen:
                continue
            seen.add(sig)
            steps = case["steps"][:v["export"] + 1]
            chk.report(sig, "%s: node %d after %s: %s" % (case["id"], v["node"], v["after"], v["what"]),
                       {"kind": "structural", "case": {"id": case["id"], "steps": steps}, "meta": case["meta"], "detail": v})
        if len(chk.samples) < 3 and o["obl"] > 3:
            chk.sample({"case": case["id"], "word": case["meta"]["word"], "obligations": o["obl"], "states": o["states"]})
    chk.cov["node_states_seen"] = states
    # ---- mirror_points
    mc = mirror_cases(chk)
    mres = run_driver([{"id": c["id"], "steps": c["steps"]} for c in mc], tag="c05m")
    found = 0
    for c in mc:
        chk.programs += 1
        r = mres[c["id"]][0]
        if not r["ok"]:
            chk.report("C05/mirror_points/panic", "%s: mirror_points panics: %s (%s)" % (c["id"], r["panic"], c["meta"]),
                       {"kind": "panic", "case": {"id": c["id"], "steps": c["steps"]}, "meta": c["meta"]})
            continue
        o = r["out"]
        if not o["found"]:
            chk.oblige(True)
            continue
        found += 1
        chk.nontrivial.add(c["id"])
        pts = o["points"]     # rows = coordinates, columns = points
        ncols = len(pts[0]) if pts else 0
        for k in range(ncols):
            x = [FR(float_of_hex(pts[r_][k])) for r_ in range(len(pts))]
            bad = None
            for a, b in zip(c["A"], c["b"]):
                if b - dot(a, x) < -(SLACK + ROUND * (abs(b) + sum(abs(p * q) for p, q in zip(a, x)))):
                    bad = (a, b)
                    break
            if bad is None:
                chk.oblige(True)
            else:
                chk.report("C05/mirror_points/outside", "%s: returned point %s violates row %s <= %s (%s)" % (
                    c["id"], [float(v) for v in x], [float(v) for v in bad[0]], float(bad[1]), c["meta"]),
                    {"kind": "structural", "case": {"id": c["id"], "steps": c["steps"]}, "meta": c["meta"]})
    chk.cov["mirror_points_cases"] = len(mc)
    chk.cov["mirror_points_found"] = found
    chk.cov["rule"] = ("seeded histories of <= 5 (6) operations over {compose pruned/un-pruned with schema or generated trees, apply_func, "
                       "infeasible_elimination, tree + - *, reduce, neg, remove_axes}, every history contains an elimination; all node "
                       "states exported after every operation; mirror_points on seeded polytopes (random, box, empty, zero row, "
                       "unbounded, scaled by 2^+-10) x start points x iteration counts; non-trivial = some node carries a witness or "
                       "an infeasible verdict / mirror_points returned points")
    chk.cov["explanation"] = ("after every operation: each stored witness satisfies every closed path condition within 1e-8 (exact "
                              "rational evaluation); for each node marked infeasible z3 decides that its path region tightened by "
                              "tau=1e-6 is empty (no point with margin was declared unreachable); for each node marked feasible that "
                              "the region relaxed by tau is non-empty; every point returned by mirror_points lies in the polytope "
                              "within 1e-8")
    chk.cov["bounds"] = {"history_length": 6, "dims": "<=3"}
    chk.assumptions += ["inputs/regions: all reals (solver); histories and polytopes: seeded"]
    return chk.finish()


if __name__ == "__main__":
    run_main(main)

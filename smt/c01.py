"""C01 Distillation is faithful: the tree computes exactly the network (DESIGN 5, C01)."""
import os
import sys
from fractions import Fraction
from multiprocessing import Pool

import z3

import gen
import netref
from core import (Q, Tree, Stats, aff_json, Aff, Con, Piece, zconds, zcon, zclosed, zaff, zfrac, zlin, hex_of_float, run_driver,
                  sig_bits, TAU, EncoderError, eval_pieces)
from fw import (Check, get_convention, run_main, interior_and_boundary_points, compare_eval, value_mismatch, absorb_stats,
                point_hex, step_panics, VALUE_TOL)

FUNCTIONS = ["src/distill/builder.rs", "src/distill/schema.rs", "src/pwl/impl_composition.rs",
             "src/pwl/impl_infeasible_elim.rs", "src/pwl/afftree.rs"]
FR = Fraction
EPS = FR(1, 10**6)
DELTA = FR(1, 10**6)
BOX = 16


def gen_network(rng, max_units, force=None):
    n = rng.choice([1, 2, 2, 3])
    nlin = rng.choice([1, 2, 2, 3])
    layers = []
    dim = n
    units = 0
    acts = ["none", "relu", "relu", "relu", "leaky", "hardtanh", "hardsigmoid"]
    if force == "leaky":
        # the same neuron index activated by leaky ReLUs of different slopes in several layers of equal width
        acts = ["leaky", "leaky", "relu"]
        nlin = rng.choice([2, 3])
    if force == "bare":
        # a head directly on one affine layer: no activation, no decision above the head
        nlin, acts = 1, ["none"]
    if force == "close":
        acts = ["relu", "relu", "hardtanh", "leaky"]
        nlin = rng.choice([1, 2])
    if force == "duphead":
        acts = ["relu", "relu", "leaky", "hardtanh"]
        nlin = rng.choice([2, 3])
    w_fixed = rng.choice([1, 2, 2, 3])
    for li in range(nlin):
        w = w_fixed if force == "leaky" else rng.choice([2, 3] if (force in ("bare", "close") or (force == "duphead" and li == nlin - 1)) else [1, 2, 2, 3])
        M = gen.mat(rng, w, dim, pzero=0.15)
        c = gen.vec(rng, w)
        s = rng.random()
        if force == "dup" or s < 0.1 or (force == "bare" and s < 0.9):
            if w >= 2:
                M[1] = list(M[0])
                c[1] = c[0]          # coincident breakpoints / argmax ties on whole regions
                if rng.random() < (0.75 if force == "bare" else 0.5):
                    c[1] = c[0] + rng.choice([FR(1), FR(-1), FR(1, 2), FR(-3)])      # parallel: an input-independent comparison
        elif force == "close" and li == 0 and w >= 2:
            # two breakpoints 2^-21 / 2^-22 apart: a region far thinner than tau = 1e-6 but far wider than any LP tolerance
            M[1] = list(M[0])
            if rng.random() < 0.85:
                c[0] = -abs(c[0]) - FR(1, 2)      # the origin (the LP's usual vertex for the first region) lies away from the thin region
            c[1] = c[0] + rng.choice([1, 1, -1]) * rng.choice([FR(1, 2**21), FR(1, 2**22)])      # thin region behind a label-0 (mostly) or a label-1 edge
        elif s < 0.18 or (force == "zerorow" and li == 0):
            M[0] = [FR(0)] * dim     # zero row: constant neuron
        elif s < 0.25 and w >= 2:
            M[1] = [-v for v in M[0]]
            c[1] = -c[0]
        layers.append({"t": "linear", "M": M, "c": c})
        dim = w
        if li == nlin - 1 and (rng.random() < 0.4 or force in ("bare", "duphead")):
            break
        for r in range(dim):
            if units >= max_units:
                break
            a = rng.choice(acts)
            if force == "close" and li == 0 and r < 2:
                a = "relu"      # the two close breakpoints belong to the same kind of activation
            if force == "zerorow" and li == 0 and r == 0:
                a = rng.choice(["relu", "leaky", "hardtanh"])      # the first activated neuron has a constant pre-activation
            if a == "none":
                continue
            units += 1
            if a == "leaky":
                alpha = rng.choice([FR(0), FR(1, 4), FR(1, 2), FR(2), FR(-1)])
                if force == "leaky":
                    alpha = [FR(1, 4), FR(2), FR(-1), FR(1, 2)][li % 4]      # a different slope in every layer
                layers.append({"t": "leaky", "row": r, "alpha": alpha})
            else:
                layers.append({"t": a, "row": r})
            if rng.random() < 0.12 and units < max_units:
                rep = dict(layers[-1])      # the same neuron activated twice in a row (not idempotent for leaky / hard sigmoid)
                if units % 2 == 0:
                    # ... or by another kind of activation (round 8, C01-d8: ReLU after leaky ReLU is not redundant); no rng draw
                    rep = {"t": {"leaky": "relu", "relu": "hardtanh", "hardtanh": "relu", "hardsigmoid": "relu"}[rep["t"]], "row": rep["row"]}
                layers.append(rep)
                units += 1
    if force == "duphead":
        # two identical logits (row and bias) under a head, below at least one activation: the head's comparison is constant on
        # every region, also on regions that are not the root's
        last = [l for l in layers if l["t"] == "linear"][-1]
        if len(last["M"]) >= 2 and units >= 1:
            last["M"][1] = list(last["M"][0])
            last["c"][1] = last["c"][0]
    head = rng.choice(["argmax", "classchar"] if force in ("bare", "duphead") else ["none", "none", "argmax", "classchar"])
    if dim >= 2 and head == "argmax":
        layers.append({"t": "argmax"})
    elif dim >= 2 and head == "classchar":
        layers.append({"t": "classchar", "c": rng.randrange(dim)})
    return n, layers


def gen_pre(rng, n):
    kind = rng.choice(["none", "none", "box", "halfspace", "triangle", "slab", "infeasible", "random"])
    if kind == "none":
        return kind, None
    if kind == "box":
        r = rng.choice([FR(1), FR(2), FR(1, 2)])
        A = [[FR(int(i == j)) for j in range(n)] for i in range(n)] + [[FR(-int(i == j)) for j in range(n)] for i in range(n)]
        b = [r] * (2 * n)
    elif kind == "halfspace":
        A, b = [gen.nonzero_vec(rng, n)], [gen.coef(rng)]
    elif kind == "triangle":
        A = [[FR(-int(i == j)) for j in range(n)] for i in range(n)] + [[FR(1)] * n]
        b = [FR(0)] * n + [FR(2)]
    elif kind == "slab":
        a = gen.nonzero_vec(rng, n)
        v = gen.coef(rng)
        A, b = [a, [-t for t in a]], [v, -v]
    elif kind == "infeasible":
        a = gen.nonzero_vec(rng, n)
        v = gen.coef(rng)
        A, b = [a, [-t for t in a]], [v, -v - 1]
    else:
        rows = rng.choice([1, 2, 3])
        A, b = [gen.nonzero_vec(rng, n) for _ in range(rows)], gen.vec(rng, rows)
    return kind, (A, b)


def make_cases(chk):
    rng = chk.rng
    quick = chk.tier == "quick"
    cases = []
    for i in range(160 if quick else 3000):
        n, layers = gen_network(rng, 6 if quick else 9, force={0: "dup", 4: "leaky", 8: "bare", 6: "close", 2: "duphead", 10: "zerorow"}.get(i % 11))
        kind, pre = gen_pre(rng, n)
        steps = [{"op": "layers", "name": "L", "layers": netref.layers_to_driver(layers)}]
        if pre is not None:
            ident = aff_json([[int(a == b) for b in range(n)] for a in range(n)], [0] * n, n)
            steps.append({"op": "from_poly", "name": "pre", "poly": aff_json(pre[0], pre[1], n), "f_true": ident, "f_false": None})
            steps.append({"op": "export", "tree": "pre"})
            steps.append({"op": "from_layers", "name": "t", "dim": n, "layers": "L", "pre": "pre"})
        else:
            steps.append({"op": "from_layers", "name": "t", "dim": n, "layers": "L"})
        steps.append({"op": "export", "tree": "t"})
        cases.append({"id": "n%d" % i, "steps": steps, "layers": layers, "n": n, "pre": pre, "tau": FR(1, 2**26) if i % 11 == 6 else None,
                      "meta": {"in_dim": n, "layers": [l["t"] for l in layers], "pre": kind, "units": netref.n_units(layers)}})
    return cases


SHIPPED = [("/repo/tests/iris_44.npz", 4), ("/repo/res/nn/iris.npz", 4), ("/repo/res/nn/ecoli.npz", 7)]


def shipped_cases(chk):
    """thorough tier: the networks shipped with the repository (weights of f32 origin: rounding regime)"""
    if chk.tier != "thorough":
        return []
    probe = run_driver([{"id": "p%d" % i, "steps": [{"op": "read_layers", "name": "L", "path": p}]} for i, (p, n) in enumerate(SHIPPED)], tag="c01s")
    cases = []
    for i, (p, n) in enumerate(SHIPPED):
        r = probe["p%d" % i][0]
        if not r["ok"] or r["out"].get("result") != "ok":
            chk.malfunction("cannot read shipped network %s: %s" % (p, r))
            continue
        layers = netref.layers_from_driver(r["out"]["layers"])
        steps = [{"op": "read_layers", "name": "L", "path": p}, {"op": "from_layers", "name": "t", "dim": n, "layers": "L"}, {"op": "export", "tree": "t"}]
        cases.append({"id": "shipped%d" % i, "steps": steps, "layers": layers, "n": n, "pre": None,
                      "meta": {"in_dim": n, "layers": [l["t"] for l in layers][:12], "pre": "none", "units": netref.n_units(layers), "file": p}})
    return cases


def monitor_exact(tree):
    """exact regime premise: every exported coefficient is a dyadic rational with <= 45 significant bits"""
    for nd in tree.nodes.values():
        for row in nd.M:
            for v in row:
                b = sig_bits(v)
                if b is None or b > 45:
                    return False
        for v in nd.c:
            b = sig_bits(v)
            if b is None or b > 45:
                return False
    return True


def region_is_fat(q, conds, pre, tau=TAU):
    """does the reference region (closed, with the precondition) still contain a point after tightening by tau?"""
    xs = q.xs
    a = [zclosed(c.closed(-tau), xs) for c in conds]
    if pre is not None:
        a += [zclosed(Con(r, b, False).closed(-tau), xs) for r, b in zip(pre[0], pre[1])]
    r, _ = q.check(a, want_model=False)
    return r == "sat"


def solve_case(args):
    case, res, conv, canary = args
    out = {"id": case["id"], "cands": [], "undecided": [], "canary": None, "pieces": 0, "points": [], "panic": None,
           "regime": "exact", "stats": None}
    p = step_panics(res)
    if p:
        out["panic"] = p[0]
        return out
    T = Tree(res[-1]["out"])
    layers, n, pre = case["layers"], case["n"], case["pre"]
    rounding = any(l["t"] == "hardsigmoid" for l in layers) or not monitor_exact(T)
    out["regime"] = "rounding" if rounding else "exact"
    q = Q(n)
    xs = q.xs
    nz, bps = netref.net_z3(layers, xs)
    pre_z = z3.And([zcon(Con(r, b, False), xs) for r, b in zip(pre[0], pre[1])]) if pre is not None else z3.BoolVal(True)
    extra = []
    if rounding:
        extra = [z3.And(x <= BOX, x >= -BOX) for x in xs] + [z3.Or(b >= zfrac(DELTA), b <= -zfrac(DELTA)) for b in bps]
    pieces = T.pieces(conv)
    out["pieces"] = len(pieces)
    for pc in pieces:
        pcz = zconds(pc.conds, xs)
        if pc.val is None:
            asserts = pcz + [pre_z] + extra
        else:
            fz = zaff(pc.val, xs)
            if len(fz) != len(nz):
                diff = z3.BoolVal(True)
            elif rounding:
                e = zfrac(EPS)
                diff = z3.Or([z3.Or(a - b > e, b - a > e) for a, b in zip(fz, nz)])
            else:
                diff = z3.Or([a != b for a, b in zip(fz, nz)])
            asserts = pcz + [z3.Or(z3.Not(pre_z), diff)] + extra
        r, _ = q.check(asserts, want_model=False, sample_tag="C01 piece vs network")
        if r == "unsat":
            continue
        if r == "unknown":
            out["undecided"].append("piece at node %s" % pc.node)
            continue
        m, ok = q.witness_f64(asserts)
        if m is None:
            out["undecided"].append("piece at node %s: no model" % pc.node)
            continue
        xf = [FR(float(v)) for v in m]
        # thin-region policy: locate the reference region of the witness
        inside_pre = pre is None or all(sum(a * t for a, t in zip(r_, xf)) <= b_ for r_, b_ in zip(pre[0], pre[1]))
        fat = True
        if inside_pre:
            _, conds, _ = netref.net_exact(layers, xf)
            fat = region_is_fat(q, conds, pre, tau=case.get("tau") or TAU)
        out["cands"].append({"point": [str(v) for v in m], "fat": fat, "inside_pre": inside_pre, "node": pc.node})
    if canary:
        # deliberately wrong reference: first output + 1 must be refuted on some piece
        nz2 = [nz[0] + 1] + list(nz[1:])
        fired = False
        for pc in pieces:
            if pc.val is None or pc.val.outdim != len(nz2):
                continue
            fz = zaff(pc.val, xs)
            r, _ = q.check(zconds(pc.conds, xs) + [pre_z, z3.And([a == b for a, b in zip(fz, nz2)])] + extra, want_model=False)
            r2, _ = q.check(zconds(pc.conds, xs) + [pre_z] + extra, want_model=False)
            if r2 == "sat":
                fired = (r == "unsat")
                break
        else:
            fired = None
        out["canary"] = fired
        out["points"] = [[str(v) for v in m] for m in interior_and_boundary_points(q, pieces, max_pieces=8)]
    out["stats"] = (q.stats.sat, q.stats.unsat, q.stats.unknown, q.stats.solver_s, q.stats.samples)
    return out


def pre_is_empty(case):
    """is the precondition polytope empty? (decided by the solver)"""
    if case["pre"] is None:
        return False
    q = Q(case["n"])
    r, _ = q.check([zcon(Con(r_, b_, False), q.xs) for r_, b_ in zip(case["pre"][0], case["pre"][1])], want_model=False)
    return r == "unsat"


def signature(case, real, exp, xf, res):
    """role of the failure (DESIGN appendix E)"""
    if case["pre"] is not None and exp is None and real.get("defined") and real.get("terminal") is not None:
        pre_tree = Tree(res[2]["out"])
        if real["terminal"] in pre_tree.decisions():
            # the reached 'terminal' is a decision node of the precondition that lost all its children
            return "childless-decision-became-terminal"
    if exp is None:
        return "defined-outside-precondition"
    if not real.get("defined", True):
        return "undefined-inside-precondition"
    return "value"


def main():
    chk = Check("C01", "translation_validation", FUNCTIONS)
    conv = get_convention(chk)
    cases = make_cases(chk)
    results = run_driver([{"id": c["id"], "steps": c["steps"]} for c in cases], tag="c01")
    jobs = [(c, results[c["id"]], conv, i % 8 == 0) for i, c in enumerate(cases)]
    with Pool(16) as pool:
        outs = pool.map(solve_case, jobs, chunksize=4)
    replay = []
    for case, o in zip(cases, outs):
        chk.programs += 1
        chk.count("regime_" + o["regime"])
        chk.count("pre_" + case["meta"]["pre"])
        if o["panic"]:
            sig = "panic-with-empty-precondition" if pre_is_empty(case) else "panic"
            chk.report("C01/afftree_from_layers/" + sig, "%s: step %d panics: %s" % (case["id"], o["panic"][0], o["panic"][1]),
                       {"kind": "panic", "case": {"id": case["id"], "steps": case["steps"]}, "meta": case["meta"]})
            continue
        absorb_stats(chk, o["stats"])
        chk.count("pieces", o["pieces"])
        if o["pieces"] > 1:
            chk.nontrivial.add(case["id"])
        chk.oblige(True, max(o["pieces"] - len(o["cands"]) - len(o["undecided"]), 0))
        for u in o["undecided"]:
            chk.undecide("%s: %s" % (case["id"], u), "solver unknown/timeout")
        if o["canary"] is not None:
            chk.canaries["expected_sat"] += 1
            chk.canaries["fired"] += 1 if o["canary"] else 0
        for c in o["cands"]:
            if not c["fat"]:
                chk.tolerance_band += 1
                chk.oblige(True)
                continue
            replay.append((case, "cand", [c["point"]]))
        if o["points"]:
            replay.append((case, "validate", o["points"]))
        if len(chk.samples) < 4 and o["pieces"] > 3:
            chk.sample({"case": case["id"], "meta": case["meta"], "pieces": o["pieces"]})
    if chk.canaries["expected_sat"] == 0 or chk.canaries["fired"] != chk.canaries["expected_sat"]:
        chk.malfunction("canary (network output + 1) not refuted: %s" % chk.canaries)
    # native replay
    rcases = [{"id": "r%d" % i, "steps": case["steps"] + [
        {"op": "eval", "tree": "t", "points": [[hex_of_float(float(FR(s))) for s in p] for p in pts]}]}
        for i, (case, kind, pts) in enumerate(replay)]
    rres = run_driver(rcases, tag="c01r") if rcases else {}
    for i, (case, kind, pts) in enumerate(replay):
        res = rres["r%d" % i]
        T = Tree(res[len(case["steps"]) - 1]["out"])
        tp = T.pieces(conv)
        for ps, real in zip(pts, res[-1]["out"]):
            xf = [FR(float(FR(s))) for s in ps]
            if kind == "validate":
                chk.validation["points"] += 1
                d = compare_eval(real, tp, xf)
                if d is None:
                    chk.validation["agree"] += 1
                else:
                    chk.malfunction("encoding of %s disagrees with the real evaluate at %s: %s" % (case["id"], ps, d))
                continue
            pre = case["pre"]
            inside = pre is None or all(sum(a * t for a, t in zip(r_, xf)) <= b_ for r_, b_ in zip(pre[0], pre[1]))
            exp = netref.net_exact(case["layers"], xf)[0] if inside else None
            rounding = any(l["t"] == "hardsigmoid" for l in case["layers"])
            d = value_mismatch(real, exp, tol=EPS if rounding else VALUE_TOL)
            if d is None:
                chk.unreplayed.append("%s at %s: solver witness does not reproduce natively" % (case["id"], ps))
                continue
            sig = signature(case, real, exp, xf, res)
            chk.report("C01/afftree_from_layers/" + sig, "%s (%s) at x=%s: %s" % (case["id"], case["meta"], [float(v) for v in xf], d),
                       {"kind": "eval", "case": {"id": case["id"], "steps": case["steps"]}, "tree": "t", "point": point_hex(xf),
                        "expected": None if exp is None else [str(e) for e in exp], "meta": case["meta"]})
    shipped_pattern_directed(chk, conv)
    chk.cov["rule"] = ("seeded layer sequences: input dim 1..3, 1..3 linear layers of width 1..3, per-neuron activation in {none, "
                       "ReLU, leaky(0,1/4,1/2,2,-1), hard tanh, hard sigmoid}, head in {none, argmax, class}, precondition in {none, "
                       "box, half-space, triangle, slab, infeasible, random}; structured weights forced in (duplicate, zero, "
                       "negated rows); non-trivial = tree has more than one piece")
    chk.cov["explanation"] = ("the real afftree_from_layers builds the tree; the network is written as a nested-ite term from the "
                              "textbook definitions; per piece of the tree z3 decides that no input exists where the tree is defined "
                              "outside the precondition, undefined inside it, or differs from the network (exact regime: exactly; "
                              "rounding regime: > 1e-6 on |x|<=16 away from breakpoints)")
    chk.cov["bounds"] = {"activation_units": 6 if chk.tier == "quick" else 9, "input_dim": 3, "width": 3, "linear_layers": 3}
    chk.assumptions += ["inputs: all reals (solver); networks and preconditions: seeded generator",
                        "exact regime monitored: coefficients dyadic with <= 45 significant bits, otherwise rounding regime",
                        "witnesses whose reference region is thinner than tau=1e-6 are counted as tolerance_band_cases (LP tolerance)"]
    return chk.finish()




# ----------------------------------------------------------------------------- shipped networks, pattern-directed (thorough)

def pattern_worker(args):
    """decide a chunk of terminal regions of one shipped network (DESIGN 5 C01, pattern-directed encoding)"""
    export, layers, n, idxs, conv = args
    T = Tree(export)
    out = {"decided": 0, "undecided": [], "cands": [], "thin": 0, "stats": None}
    q = Q(n, timeout_ms=10000)
    xs = q.xs
    box = [z3.And(x <= BOX, x >= -BOX) for x in xs]
    for idx in idxs:
        conds, _ = T.path_conds(idx, conv)
        region = [zclosed(c.closed(0), xs) for c in conds] + box
        # a point of the tau-tightened region chooses the activation pattern to prove
        r, m = q.check([zclosed(c.closed(-TAU), xs) for c in conds] + box)
        if r == "unsat":
            out["thin"] += 1        # thinner than tau: LP-tolerance band, nothing to prove
            continue
        if r == "unknown":
            out["undecided"].append(idx)
            continue
        x0 = [FR(float(v)) for v in m]
        val0, pat, st = netref.net_exact(layers, x0)
        ok = True
        # (a) no point of the region lies beyond a breakpoint of the pattern by more than DELTA on the other side
        for c in pat:
            a, b = c.closed(0)                      # a.x <= b holds on the pattern region
            na = sum(abs(v) for v in a) or FR(1)
            r, mm = q.check(region + [zlin(a, xs) >= zfrac(b + DELTA * na)], sample_tag="C01 pattern-directed: region inside pattern")
            if r == "sat":
                ok = False
                out["cands"].append({"node": idx, "point": [str(v) for v in mm], "kind": "pattern"})
                break
            if r == "unknown":
                ok = False
                out["undecided"].append(idx)
                break
        if not ok:
            continue
        # (b) on the region the terminal map equals the network's affine map under the pattern (within EPS)
        f = T.aff(idx)
        if f.outdim != st.outdim:
            out["cands"].append({"node": idx, "point": [str(v) for v in x0], "kind": "dim"})
            continue
        diffs = []
        for r1, c1, r2, c2 in zip(f.M, f.c, st.M, st.c):
            d = zlin([p - q_ for p, q_ in zip(r1, r2)], xs) + zfrac(c1 - c2)
            diffs += [d > zfrac(EPS), d < zfrac(-EPS)]
        r, mm = q.check(region + [z3.Or(diffs)], sample_tag="C01 pattern-directed: terminal map equals pattern map")
        if r == "sat":
            out["cands"].append({"node": idx, "point": [str(v) for v in mm], "kind": "value"})
        elif r == "unknown":
            out["undecided"].append(idx)
        else:
            out["decided"] += 1
    out["stats"] = (q.stats.sat, q.stats.unsat, q.stats.unknown, q.stats.solver_s, q.stats.samples)
    return out


def shipped_pattern_directed(chk, conv):
    """thorough tier: the networks shipped with the repository (iris, iris_44, ecoli, mnist-5-5: up to 20 ReLUs and
    thousands of regions) decided region by region with the pattern-directed encoding"""
    if chk.tier != "thorough":
        return
    for path, n in SHIPPED + [("/repo/res/nn/mnist-5-5.npz", 7)]:
        shipped_one(chk, conv, path, n)


def shipped_one(chk, conv, path, n):
    name = os.path.basename(path)
    steps = [{"op": "read_layers", "name": "L", "path": path}, {"op": "from_layers", "name": "t", "dim": n, "layers": "L"}, {"op": "export", "tree": "t"}]
    res = run_driver([{"id": "mnist", "steps": steps}], profile="release", tag="c01m")["mnist"]
    if step_panics(res):
        chk.report("C01/afftree_from_layers/panic", "%s does not distill: %s" % (name, step_panics(res)[0][1]),
                   {"kind": "panic", "case": {"id": "mnist", "steps": steps}})
        return
    layers = netref.layers_from_driver(res[0]["out"]["layers"])
    export = res[2]["out"]
    T = Tree(export)
    terms = T.terminals()
    cap = int(os.environ.get("VERIF_C01_MNIST_TERMINALS", "100000"))
    terms = terms[:cap]
    chunks = [terms[i::64] for i in range(64)]
    with Pool(16) as pool:
        outs = pool.map(pattern_worker, [(export, layers, n, ch, conv) for ch in chunks if ch], chunksize=1)
    decided = thin = 0
    cands = []
    for o in outs:
        absorb_stats(chk, o["stats"])
        decided += o["decided"]
        thin += o["thin"]
        for u in o["undecided"]:
            chk.undecide("%s terminal %d" % (name, u), "solver unknown/timeout")
        cands += o["cands"]
    chk.programs += 1
    chk.nontrivial.add(name)
    chk.oblige(True, decided)
    chk.tolerance_band += thin
    chk.cov.setdefault("shipped_networks", {})[name] = {"terminals": len(T.terminals()), "examined": len(terms), "decided": decided, "thinner_than_tau": thin,
                            "counterexample_candidates": len(cands), "relu_units": netref.n_units(layers)}
    # native replay of candidates
    if cands:
        pts = [[hex_of_float(float(FR(s))) for s in c["point"]] for c in cands[:50]]
        rr = run_driver([{"id": "r", "steps": steps + [{"op": "eval", "tree": "t", "points": pts}]}], profile="release", tag="c01mr")["r"]
        for c, real in zip(cands[:50], rr[-1]["out"]):
            xf = [FR(float(FR(s))) for s in c["point"]]
            exp = netref.net_exact(layers, xf)[0]
            d = value_mismatch(real, exp, tol=EPS)
            if d is None:
                chk.unreplayed.append("%s terminal %d (%s) at %s: does not reproduce natively" % (name, c["node"], c["kind"], c["point"][:3]))
            else:
                chk.report("C01/afftree_from_layers/shipped/" + c["kind"], "%s at x=%s: %s" % (name, [float(v) for v in xf], d),
                           {"kind": "eval", "case": {"id": "mnist", "steps": steps}, "tree": "t", "point": point_hex(xf),
                            "expected": [str(e) for e in exp]})


if __name__ == "__main__":
    run_main(main)

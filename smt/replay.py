"""./check <ID> --replay FILE : re-run a recorded counterexample against the real code only (no solver)."""
import json
import sys
from fractions import Fraction

from core import run_driver, Malfunction
from fw import value_mismatch


def main():
    pid, path = sys.argv[1], sys.argv[2]
    obj = json.load(open(path))
    kind = obj.get("kind")
    if kind in ("eval", "panic", "structural"):
        case = obj["case"]
        steps = list(case["steps"])
        if kind == "eval":
            steps.append({"op": "eval", "tree": obj["tree"], "points": [obj["point"]]})
        bad = False
        for profile in ("dev", "release"):
            res = run_driver([{"id": "replay", "steps": steps}], profile=profile, tag="replay")["replay"]
            if kind == "eval":
                for i, r in enumerate(res[:-1]):
                    if not r["ok"]:
                        print("%s: step %d panics: %s" % (profile, i, r["panic"]))
                r = res[-1]
                if not r["ok"]:
                    print("%s: eval step panics: %s" % (profile, r["panic"]))
                    bad = True
                    continue
                exp = obj["expected"]
                exp = None if exp is None else [Fraction(e) for e in exp]
                d = value_mismatch(r["out"][0], exp)
                print("%s: %s" % (profile, d or "agrees with the reference"))
                bad = bad or d is not None
            elif kind == "panic":
                p = [r["panic"] for r in res if not r["ok"]]
                print("%s: %s" % (profile, p or "no panic"))
                bad = bad or bool(p)
            else:
                p = [r["panic"] for r in res if not r["ok"]]
                print("%s: the recorded script runs (%s); the finding itself (%s) compares exported structures and is only "
                      "re-decided by ./check %s" % (profile, "panics: %s" % p if p else "no panic", obj.get("what"), pid))
        if kind == "structural":
            print("INCONCLUSIVE property=%s replay=%s (structural finding: re-run ./check %s)" % (pid, path, pid))
            sys.exit(2)
        if bad:
            print("VIOLATION property=%s replay=%s" % (pid, path))
            sys.exit(1)
        sys.exit(0)
    if kind == "lifted":
        import os, subprocess
        sys.path.insert(0, os.path.join(os.path.dirname(os.path.dirname(os.path.abspath(__file__))), "lifted"))
        import run as lrun
        binp = lrun.build()
        r = subprocess.run([binp, "replay", path], stdout=subprocess.PIPE, text=True)
        print(r.stdout.strip())
        if r.returncode == 1:
            print("VIOLATION property=%s replay=%s" % (pid, path))
            sys.exit(1)
        sys.exit(0 if r.returncode == 0 else 2)
    print("unknown replay kind %s" % kind)
    sys.exit(2)


if __name__ == "__main__":
    try:
        main()
    except Malfunction as e:
        print("MALFUNCTION", e)
        sys.exit(2)

"""C18 Architecture shape tracking describes the real network (DESIGN 5, C18); read_layers is outside the claim."""
import itertools
from fractions import Fraction

import gen
import netref
from core import Tree, aff_json, hex_of_float
from fw import Check, Target, get_convention, run_main, run_target_check, step_panics

FUNCTIONS = ["src/distill/arch.rs", "src/distill/builder.rs", "src/pwl/impl_composition.rs"]
FR = Fraction
SYMS = ["L1", "L2", "L3", "Lbad", "relu", "prelu0", "prelu2", "prelu3", "leaky", "pleaky1", "htanh", "phtanh0", "hsig", "phsig2", "argmax"]


def ref_step(shape, sym):
    """ten-line reference shape calculus: returns (accepted, new_shape, layers appended as netref layers with widths)"""
    if sym in ("L1", "L2", "L3"):
        return True, int(sym[1]), [("linear", int(sym[1]), shape)]
    if sym == "Lbad":
        return False, shape, []
    if sym in ("relu", "leaky", "htanh", "hsig"):
        t = {"relu": "relu", "leaky": "leaky", "htanh": "hardtanh", "hsig": "hardsigmoid"}[sym]
        return True, shape, [(t, i) for i in range(shape)]
    if sym.startswith("p"):
        idx = int(sym[-1])
        t = {"prelu": "relu", "pleaky": "leaky", "phtanh": "hardtanh", "phsig": "hardsigmoid"}[sym[:-1]]
        return (idx < shape), shape, ([(t, idx)] if idx < shape else [])
    if sym == "argmax":
        # argmax needs at least two components; its output is one-dimensional
        return (shape >= 2), (1 if shape >= 2 else shape), ([("argmax",)] if shape >= 2 else [])
    raise ValueError(sym)


def make_cases(chk):
    rng = chk.rng
    quick = chk.tier == "quick"
    words = []
    for L in (1, 2):
        words += list(itertools.product(SYMS, repeat=L))
    w3 = list(itertools.product(SYMS, repeat=3))
    words += rng.sample(w3, 200 if quick else len(w3))
    if not quick:
        words += [tuple(rng.choice(SYMS) for _ in range(4)) for _ in range(1000)]
        words += [tuple(rng.choice(SYMS) for _ in range(5)) for _ in range(500)]
    else:
        words += [tuple(rng.choice(SYMS) for _ in range(rng.choice([4, 5]))) for _ in range(80)]
    cases = []
    for wi, w in enumerate(words):
        n0 = rng.choice([2, 3]) if wi % 5 else 1
        steps = [{"op": "arch_new", "name": "A", "dim": n0}]
        shape = n0
        expect = []
        layers = []
        for sym in w:
            ok, new_shape, ls = ref_step(shape, sym)
            st = {"op": "arch_call", "arch": "A"}
            if sym.startswith("L"):
                m = int(sym[1]) if sym != "Lbad" else rng.choice([1, 2])
                indim = shape if sym != "Lbad" else shape + rng.choice([1, 2])
                M, c = gen.mat(rng, m, indim, pzero=0.15), gen.vec(rng, m)
                st.update({"call": "linear", "aff": aff_json(M, c, indim)})
                if ok:
                    layers.append({"t": "linear", "M": M, "c": c})
            else:
                alpha = FR(1, 2)
                call = {"relu": "relu", "leaky": "leaky_relu", "htanh": "hard_tanh", "hsig": "hard_sigmoid", "argmax": "argmax"}.get(sym)
                if call is None:
                    call = {"prelu": "partial_relu", "pleaky": "partial_leaky_relu", "phtanh": "partial_hard_tanh",
                            "phsig": "partial_hard_sigmoid"}[sym[:-1]]
                    st["idx"] = int(sym[-1])
                st["call"] = call
                if "leaky" in call:
                    st["alpha"] = hex_of_float(float(alpha))
                for l in ls:
                    if l[0] == "argmax":
                        layers.append({"t": "argmax"})
                    elif l[0] == "leaky":
                        layers.append({"t": "leaky", "row": l[1], "alpha": alpha})
                    else:
                        layers.append({"t": l[0], "row": l[1]})
            steps.append(st)
            expect.append((ok, new_shape))
            shape = new_shape
        nops = len(layers)
        steps.append({"op": "arch_info", "arch": "A"})
        info_at = len(steps) - 1
        distill_at = None
        splits = []
        if nops >= 1 and netref.n_units(layers) <= (5 if quick else 6):
            steps.append({"op": "arch_distill", "arch": "A", "name": "whole"})
            distill_at = len(steps) - 1
            steps.append({"op": "export", "tree": "whole"})
            for k in range(1, nops):
                s0 = len(steps)
                steps += [{"op": "arch_extract", "arch": "A", "name": "P", "start": 0, "end": k},
                          {"op": "arch_extract", "arch": "A", "name": "S", "start": k, "end": nops},
                          {"op": "arch_distill", "arch": "P", "name": "p"},
                          {"op": "arch_distill", "arch": "S", "name": "s"},
                          {"op": "compose", "tree": "p", "other": "s", "prune": False},
                          {"op": "export", "tree": "p"}]
                splits.append((k, s0))
        cases.append({"id": "w%d" % wi, "steps": steps, "expect": expect, "info_at": info_at, "distill_at": distill_at, "splits": splits,
                      "layers": layers, "final_shape": shape,
                      "meta": {"word": list(w), "input_dim": n0, "in_dim": n0, "accepted_ops": nops}})
    return cases


def build_targets(case, res, conv):
    findings = []
    targets = []
    n0 = case["meta"]["input_dim"]
    # ---- clause (i): accept/reject and current_shape after every call
    for i, (ok, shp) in enumerate(case["expect"]):
        r = res[1 + i]
        sym = case["meta"]["word"][i]
        if not r["ok"]:
            findings.append(("builder/panic", "call %d (%s) panics: %s" % (i, sym, r["panic"]), "panic"))
            return targets, n0, findings
        got_ok = r["out"]["result"] == "ok"
        if got_ok != ok:
            findings.append(("builder/accepts-incompatible" if got_ok else "builder/rejects-compatible",
                             "call %d (%s) on shape %d: %s, reference says %s" % (i, sym, case["expect"][i - 1][1] if i else n0,
                                                                                   "accepted" if got_ok else "rejected",
                                                                                   "accept" if ok else "reject"), "structural"))
            return targets, n0, findings
        if r["out"]["shape"] != shp:
            role = "argmax/shape-not-updated" if sym == "argmax" else "builder/shape"
            findings.append((role, "after call %d (%s) current_shape is %d, the network built so far has output dimension %d" % (
                i, sym, r["out"]["shape"], shp), "structural"))
            return targets, n0, findings
    if case["distill_at"] is None:
        return targets, n0, findings
    d = res[case["distill_at"]]
    if not d["ok"]:
        findings.append(("distill/panic", "accepted architecture %s does not distill: %s" % (case["meta"]["word"], d["panic"]), "panic"))
        return targets, n0, findings
    whole = res[case["distill_at"] + 1]["out"]
    W = Tree(whole)
    outs = {len(W.nodes[t].M) for t in W.terminals()}
    if outs != {case["final_shape"]}:
        findings.append(("distill/output-dim", "distilled tree has terminal output dimensions %s, current_shape is %d" % (
            sorted(outs), case["final_shape"]), "structural"))
        return targets, n0, findings
    ref = W.pieces(conv)
    rounding = any(l["t"] == "hardsigmoid" for l in case["layers"])
    layers = case["layers"]

    def away_from_breakpoints(xs):
        # rounding regime: only inputs that are not within 1e-6 of a breakpoint of the network (zero crossing of a
        # pre-activation, clamp bound, argmax gap) - the property's own wording
        import z3
        from core import zfrac
        d = zfrac(FR(1, 10**6))
        return [z3.Or(b >= d, b <= -d) for b in netref.net_z3(layers, xs)[1]]
    for k, s0 in case["splits"]:
        for j in range(6):
            if not res[s0 + j]["ok"]:
                findings.append(("split/panic", "split at %d: step %s panics: %s" % (k, case["steps"][s0 + j]["op"], res[s0 + j]["panic"]), "panic"))
                return targets, n0, findings
        for j in (0, 1):
            if res[s0 + j]["out"]["result"] != "ok":
                findings.append(("split/extract-err", "extract_range for split %d returned Err: %s" % (k, res[s0 + j]["out"]), "structural"))
                return targets, n0, findings
        # shape bookkeeping of the two extracted parts against the shapes implied by the operator list itself
        dims = [n0]
        for l in case["layers"]:
            dims.append(len(l["M"]) if l["t"] == "linear" else (1 if l["t"] in ("argmax", "classchar") else dims[-1]))
        nops_ = case["meta"]["accepted_ops"]
        for j, (lo, hi) in enumerate(((0, k), (k, nops_))):
            o = res[s0 + j]["out"]
            want = {"input": dims[lo], "shape": dims[hi], "n_ops": hi - lo}
            got = {t: o[t] for t in want}
            if got != want:
                findings.append(("split/extracted-shape", "extract_range(%d, %d) of %s: input/current shape/operators %s, the operator "
                                 "list implies %s" % (lo, hi, case["meta"]["word"], got, want), "structural"))
                return targets, n0, findings
        targets.append(Target("split at %d of %d" % (k, case["meta"]["accepted_ops"]), "p", res[s0 + 5]["out"], s0 + 5, ref,
                              eps=FR(1, 10**9) if rounding else None, box=(1 << 10) if rounding else None,
                              tighten=FR(1, 10**6) if rounding else None, sig="split",
                              extra_fn=away_from_breakpoints if rounding else None))
    return targets, n0, findings


def main():
    chk = Check("C18", "translation_validation", FUNCTIONS)
    conv = get_convention(chk)
    cases = make_cases(chk)
    chk.cov["call_sequences"] = len(cases)
    chk.cov["with_split_checks"] = sum(1 for c in cases if c["splits"])
    run_target_check(chk, cases, "c18", "C18", conv, tag="c18", canary_every=25)
    chk.cov["rule"] = ("builder call sequences over %d symbols (linear to width 1/2/3 with matching or mismatching input, layer-wide "
                       "and per-neuron relu / leaky / hard tanh / hard sigmoid with in- and out-of-range indices, argmax): all of length "
                       "<= 2, (quick: 260 seeded / thorough: all) of length 3, seeded of length 4-5; input dims 1..3; lattice weights; "
                       "non-trivial = more pieces than split targets" % len(SYMS))
    chk.cov["explanation"] = ("clause (i): every call's Ok/Err and current_shape is compared with a reference shape calculus and every "
                              "accepted architecture is distilled (no panic, terminal output dimension = current_shape) - a comparison "
                              "over an enumerated space, not a solver verdict; clause (ii): for every split point k z3 decides that "
                              "tree(0..k) composed with tree(k..n) equals tree(0..n) for all inputs (exact; 1e-9 with hard sigmoid)")
    chk.cov["bounds"] = {"sequence_length": 5, "widths": 3, "activation_units_for_distillation": 5 if chk.tier == "quick" else 6}
    chk.assumptions += ["read_layers (npz parsing) is outside the claim", "inputs: all reals (solver); call sequences enumerated/seeded"]
    return chk.finish()


if __name__ == "__main__":
    run_main(main)

#!/usr/bin/env python3
"""renders /verif/seeded/MATRIX.json as the markdown table of DESIGN.md section 11.8"""
import json, os
V = os.path.dirname(os.path.dirname(os.path.abspath(__file__)))
M = json.load(open(os.path.join(V, "seeded", "MATRIX.json")))
rows = []
for d in sorted(M):
    meta = json.load(open(os.path.join(V, "seeded", d, "meta.json")))
    e = M[d]
    if meta.get("retired"):
        rows.append("| %s | %s | - | retired: %s |" % (d, meta["needs_to_manifest"][:170].replace("|", "/"), meta["retired"][:160]))
        continue
    if "error" in e:
        rows.append("| %s | %s | - | %s |" % (d, meta["needs_to_manifest"][:150], e["error"]))
        continue
    own = d.split("-")[0]
    caught = [c for c, r in e.items() if r.get("caught")]
    missed = [c for c, r in e.items() if not r.get("caught")]
    how = ""
    if own in e and e[own].get("first"):
        f = e[own]["first"]
        how = f[f.find("("):][:140].replace("|", "/")
    rows.append("| %s | %s | %s | %s |" % (d, meta["needs_to_manifest"][:170].replace("|", "/"), ", ".join(caught) or "**none**",
                                         (how if own in caught else ("not caught by %s" % ", ".join(missed)))))
print("| seeded change | needs | caught by | first report / remark |\n|---|---|---|---|")
print("\n".join(rows))
R = {d for d in M if json.load(open(os.path.join(V, "seeded", d, "meta.json"))).get("retired")}
M = {d: e for d, e in M.items() if d not in R}
n = len(M)
c = sum(1 for d, e in M.items() if any(r.get("caught") for r in e.values() if isinstance(r, dict)))
own = sum(1 for d, e in M.items() if isinstance(e.get(d.split("-")[0]), dict) and e[d.split("-")[0]].get("caught"))
print("\n%d seeded changes (%d more retired), %d caught by the check of their own property, %d caught by some check." % (n, len(R), own, c))

#!/bin/bash
# usage: tools/confirm_seed.sh <agent-worktree> <ID> <suffix>    e.g. tools/confirm_seed.sh /tmp/mut8/C02 C02 a8
# Re-confirms a sub-agent's seeded change in a fresh scratch worktree of /repo HEAD (demo passes unpatched, fails patched,
# whole suite passes patched without the demo) and stores it as /verif/seeded/<ID>-<suffix>/ when all three hold.
src="$1"; id="$2"; suf="$3"
V=$(cd "$(dirname "$0")/.." && pwd)
w=/tmp/confirm9/$id
patch="$src/patch.diff"
demo=$(ls "$src"/tests/demo_*.rs 2>/dev/null | head -1)
[ -s "$patch" ] && [ -n "$demo" ] || { echo "$id: patch or demo missing"; exit 2; }
rm -rf "$w"; git -C /repo worktree prune
git -C /repo worktree add -f --detach "$w" HEAD >/dev/null 2>&1 || exit 2
cp /repo/Cargo.lock "$w/" 2>/dev/null
export CARGO_TARGET_DIR="$src/target"   # reuse the agent's build output (same sources up to the patch)
cp "$demo" "$w/tests/demo.rs"
cd "$w"
cargo test --offline --test demo >/tmp/confirm9/$id.clean.log 2>&1; c=$?
git apply "$patch" || { echo "$id: patch does not apply"; exit 2; }
cargo test --offline --test demo >/tmp/confirm9/$id.mut.log 2>&1; m=$?
rm tests/demo.rs
cargo test --offline >/tmp/confirm9/$id.suite.log 2>&1; s=$?
f=$(grep -c "^test result: FAILED" /tmp/confirm9/$id.suite.log)
echo "$id: demo_clean_exit=$c demo_mutated_exit=$m suite_exit=$s suite_result_lines_with_failures=$f"
cd /
git -C /repo worktree remove --force "$w"
if [ $c -eq 0 ] && [ $m -ne 0 ] && [ $s -eq 0 ] && [ "$f" = 0 ]; then
  d="$V/seeded/$id-$suf"; mkdir -p "$d"
  cp "$patch" "$d/patch.diff"; cp "$demo" "$d/demo.rs"
  echo "demo_clean_exit=$c demo_mutated_exit=$m suite_exit=$s suite_result_lines_with_failures=$f" > "$d/.result"
  echo "$id: stored in $d"
else
  exit 1
fi

#!/usr/bin/env python3
"""applies every seeded change to /repo in turn, runs the quick check of its property (and optional extra ids), undoes it,
and records which checks caught it in /verif/seeded/MATRIX.json"""
import json, os, subprocess, sys, time
V = os.path.dirname(os.path.dirname(os.path.abspath(__file__)))
EXTRA = {} if os.environ.get("NOEXTRA") else {"C01": ["C17"], "C03": ["C12"], "C09": ["C13"], "C13": ["C09"], "C06": ["C01"], "C12": ["C03", "C09"], "C11": ["C05"]}
only = sys.argv[1:]
out_path = os.path.join(V, "seeded", "MATRIX.json")
res = json.load(open(out_path)) if os.path.exists(out_path) else {}
for d in sorted(os.listdir(os.path.join(V, "seeded"))):
    full = os.path.join(V, "seeded", d)
    if not os.path.isdir(full) or (only and d not in only):
        continue
    pid = d.split("-")[0]
    patch = os.path.join(full, "patch.diff")
    assert subprocess.run(["git", "-C", "/repo", "status", "--porcelain", "--untracked-files=no"], capture_output=True, text=True).stdout.strip() == "", "repo dirty"
    r = subprocess.run(["git", "-C", "/repo", "apply", patch])
    if r.returncode != 0:
        res[d] = {"error": "patch does not apply to /repo HEAD"}
        continue
    entry = {}
    try:
        for cid in [pid] + EXTRA.get(pid, []):
            t0 = time.time()
            r = subprocess.run(["./check", cid], cwd=V, capture_output=True, text=True)
            lines = [l for l in r.stdout.splitlines() if l.startswith(("VIOLATION", "MALFUNCTION", "UNREPLAYED"))]
            entry[cid] = {"exit": r.returncode, "caught": r.returncode == 1, "wall_s": round(time.time() - t0, 1),
                          "first": (lines[0][:300] if lines else "")}
            print(d, cid, "exit", r.returncode, lines[0][:160] if lines else "", flush=True)
    finally:
        subprocess.run(["git", "-C", "/repo", "checkout", "--", "."])
    res[d] = entry
    json.dump(res, open(out_path, "w"), indent=1)

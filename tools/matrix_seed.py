#!/usr/bin/env python3
"""robustness of the seeded-change matrix against the generator seed: re-runs the own-property quick check of every seeded
change under VERIF_SEED=<seed> and lists the ones that are caught under the default seed but not under this one.
usage: tools/matrix_seed.py <seed> [ids...]   (writes seeded/MATRIX_seed<seed>.json; applies patches to /repo like matrix.py)"""
import json, os, subprocess, sys, time
V = os.path.dirname(os.path.dirname(os.path.abspath(__file__)))
seed = sys.argv[1]
only = sys.argv[2:]
base = json.load(open(os.path.join(V, "seeded", "MATRIX.json")))
out_path = os.path.join(V, "seeded", "MATRIX_seed%s.json" % seed)
res = json.load(open(out_path)) if os.path.exists(out_path) else {}
for d in sorted(os.listdir(os.path.join(V, "seeded"))):
    full = os.path.join(V, "seeded", d)
    if not os.path.isdir(full):
        continue
    pid = d.split("-")[0]
    if only and pid not in only and d not in only:
        continue
    meta = json.load(open(os.path.join(full, "meta.json")))
    if meta.get("retired") or not base.get(d, {}).get(pid, {}).get("caught"):
        continue
    assert subprocess.run(["git", "-C", "/repo", "status", "--porcelain", "--untracked-files=no"], capture_output=True, text=True).stdout.strip() == "", "repo dirty"
    if subprocess.run(["git", "-C", "/repo", "apply", os.path.join(full, "patch.diff")]).returncode != 0:
        res[d] = {"error": "patch does not apply"}
        continue
    try:
        t0 = time.time()
        r = subprocess.run(["./check", pid], cwd=V, capture_output=True, text=True, env=dict(os.environ, VERIF_SEED=seed))
        res[d] = {"exit": r.returncode, "caught": r.returncode == 1, "wall_s": round(time.time() - t0, 1)}
        print(d, "exit", r.returncode, flush=True)
    finally:
        subprocess.run(["git", "-C", "/repo", "checkout", "--", "."])
    json.dump(res, open(out_path, "w"), indent=1)
print("caught under the default seed but not under seed %s:" % seed, [d for d, e in res.items() if not e.get("caught")])

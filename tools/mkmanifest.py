#!/usr/bin/env python3
"""writes /verif/MANIFEST.json from the table below (kept in one place so that it stays consistent)"""
import json, os
V = os.path.dirname(os.path.dirname(os.path.abspath(__file__)))

T_NOTE = ("programs (trees/networks/systems) are enumerated or seeded, not all programs; exact rational arithmetic stands in for f64 "
          "(monitored: exact regime on a dyadic lattice); encoder of evaluate/find_terminal is re-validated against the real code at "
          "solver-chosen interior and on-hyperplane points on every run; z3 is trusted")

CHECKS = {
 "C01": dict(engine="T", cat="translation_validation", ref="5 C01",
   text="For every generated layer sequence and precondition the real afftree_from_layers builds the tree; the network is written independently as a nested-ite term from the textbook activation definitions. Per linear piece of the tree z3 decides that no real input exists at which the tree is defined outside the precondition, undefined inside it, or differs from the network: exactly (breakpoints and argmax ties included) when all coefficients are dyadic, and up to 1e-6 away from breakpoints otherwise. Networks are seeded (<=6/<=9 activation units, dims<=3).",
   note=T_NOTE + "; witnesses whose reference region is thinner than tau=1e-6 are attributed to the LP tolerance the property allows and only counted",
   technique="SMT (z3 QF_LRA) equivalence of each exported tree piece against the network as an ite-term, all inputs symbolic"),
 "C02": dict(engine="T", cat="translation_validation", ref="5 C02",
   text="For every generated operand pair the real compose::<false,false>/apply_func builds h; z3 (QF_LRA) then decides, per linear piece of h, that no real input exists at which h and g(f(x)) differ in definedness or value. Inputs (boundary points included) are universally quantified by the solver; operand shapes are bounded-exhaustive (<=2/<=3 decisions, K in {2,4}), coefficients seeded.",
   note=T_NOTE, technique="SMT (z3 QF_LRA) equivalence of the exported tree against the substitution g(f(x)), all inputs symbolic"),
 "C03": dict(engine="T", cat="translation_validation", ref="5 C03",
   text="Seeded histories (<=4 operations, cached feasibility states carried along) are run for real; every pruning step (infeasible_elimination, compose::<true>, tree + - *) is compared with its un-pruned counterpart: z3 decides, for every piece of the un-pruned object tightened by tau=1e-6, that no input exists where the pruned tree differs in definedness or value, and that every node removed with all its descendants has an empty path region up to tau.",
   note=T_NOTE + "; regions thinner than tau may disappear (the property's own LP-tolerance carve-out)",
   technique="SMT (z3 QF_LRA) equivalence before/after pruning for all inputs, emptiness of removed regions"),
 "C05": dict(engine="T", cat="translation_validation", ref="5 C05",
   text="Seeded histories (<=5/6 operations incl. pruned/un-pruned composition, arithmetic, reduce, remove_axes, repeated elimination; a quarter with large un-normalised predicates where the LP's vertices miss half-spaces) are run for real and every node state is exported after every operation. Each stored witness is checked against every closed path condition within 1e-8 by exact rational evaluation; for each node marked infeasible z3 decides that its path region tightened by tau is empty, for each node marked feasible that the relaxed region is non-empty; every point returned by mirror_points on seeded polytopes/start points lies in the polytope.",
   note=T_NOTE, technique="SMT (z3 QF_LRA) emptiness/non-emptiness of path regions behind cached verdicts; exact rational membership of stored witnesses"),
 "C06": dict(engine="T", cat="translation_validation", ref="5 C06",
   text="On total trees (seeded compose/apply_func/eliminate pipelines) z3 decides after infeasible_elimination that every surviving non-root node has a non-empty path region once relaxed by tau; no decision below the root keeps a single branch; a second elimination changes nothing and solves no LP. For distilled ReLU networks (<=6/7 units) z3 decides for every activation pattern whether its open and its closed region are non-empty and the number of terminals must lie between the two counts.",
   note=T_NOTE, technique="SMT (z3 QF_LRA) non-emptiness of every surviving path region and of every activation-pattern region"),
 "C07": dict(engine="T", cat="translation_validation", ref="5 C07",
   text="Operand pairs (shapes <=2 decisions, total/partial, K=2 and K=4) under + - * / in every ownership variant, tree-affine forms on either side, and negation are run for real; the reference is the point-wise lifting computed by the encoder from the exported operands; z3 decides per reference piece (tightened by tau for the pruning tree-tree forms) that no input exists where the result differs in definedness or value, operand order included.",
   note=T_NOTE + "; division compared up to 1e-9 on |x|<=1024 (quotients are not dyadic); zero divisor coefficients outside the claim",
   technique="SMT (z3 QF_LRA) equivalence of the result tree against the encoder-computed point-wise lifting, all inputs symbolic"),
 "C08": dict(engine="T", cat="translation_validation", ref="5 C08",
   text="Every shape with <=3 decisions plus seeded larger ones, terminals drawn from a pool of identical functions and near-copies, scrambled arena layouts and column-major matrices: the real reduce runs and z3 decides per piece that reduce(t) equals t for all inputs, definedness included; node count, idempotence, no identical terminal siblings left below the root and differing siblings kept are read off the exported trees.",
   note=T_NOTE, technique="SMT (z3 QF_LRA) equivalence of the tree before and after reduce, all inputs symbolic; structural clauses by comparison of exports"),
 "C09": dict(engine="T", cat="translation_validation", ref="5 C09",
   text="For every generated tree (all shapes <=3 decisions, seeded 3-4, total/partial, scrambled layouts, parallel/coincident/zero-row predicates) z3 decides per node that routing implies membership in the reported path conditions, that strict interior points of the reported polytope are routed through the node, that terminal interiors are disjoint and that total trees cover the space; routing is the calibrated encoding of evaluate_decision and is confirmed by the real find_terminal at solver-chosen interior and on-hyperplane points. Stream order, depth, sibling counters and path conditions under every single (and pairs of) skip position are compared with a DFS derived from the exported links.",
   note=T_NOTE, technique="SMT (z3 QF_LRA) region/routing agreement per node for all inputs; stream structure by comparison with exported links"),
 "C10": dict(engine="T", cat="translation_validation", ref="5 C10",
   text="Constraint systems by category (bounded, empty with margin / by a hair, point, lower-dimensional, unbounded, redundant, zero rows, parallel rows, free coordinate) with five objectives each, plus every LP that real pruning runs pose (hook call log): z3 referees each answer of status/is_feasible/solve_linprog/Chebyshev program over all points: infeasible => tightened system empty; feasible => relaxed system non-empty; optimal(w) => w in the set (1e-8 relative) and no feasible point is better by more than 1e-6; unbounded => a feasible point and an improving recession direction exist.",
   note=T_NOTE, technique="SMT (z3 QF_LRA) certificate checking of every LP answer: emptiness, membership, optimality (no better point), recession rays"),
 "C11": dict(engine="T", cat="fault_enumeration", ref="5 C11",
   text="For seeded base histories ending in infeasible_elimination, pruned composition or tree arithmetic the LP calls of the operation are counted through the hook, then the operation is repeated under every fault plan: each single call position x {Error, Unbounded, perturbed witness, far-off witness}, all calls faulted (thorough: pairs and seeded subsets). Per plan: no panic, well-formed tree, cached witnesses/verdicts sound, and z3 decides for every piece of the un-pruned reference (tightened by tau) that the faulted result does not differ in definedness or value.",
   note=T_NOTE + "; fault model = the cfg(affinitree_verif) hook overriding the answer of Polytope::solve_linprog at chosen call indices",
   technique="exhaustive enumeration of LP fault positions (up to the subset bound) with an SMT (z3 QF_LRA) function-preservation oracle over all inputs"),
 "C12": dict(engine="K", cat="model_checking", ref="5 C12, 3.1",
   text="Kani/CBMC model-checks the compiled arena tree (Tree<u8,K>) with one generated harness per concrete shape (every labelled tree with <=3 nodes, K=2 quick / K in {2,3} thorough, plus an index-reuse layout) and operation: add_child_node, update_node and merge_child_with_parent with symbolic arguments (valid and invalid indices, every label, any payload), try_remove_child / remove_all_descendants for every concrete argument that removes a leaf or must fail. After the call every observable of every slot (parent, each child link, leaf flag, value, contains, len, root) is asserted against the post-state of a reference model; Err must leave all of them unchanged. Counterexamples are re-run natively on the real build.",
   note="bounded: <=3 nodes, one operation after the pre-state, unwind 6 with unwinding assertions; slab is replaced by a heap-free model of its API (stub, listed in the evidence; failures are replayed on the real slab); removals of subtrees with descendants are OUTSIDE the bound (no verdict within 10 min even with concrete arguments)",
   technique="bounded model checking of the compiled code with Kani/CBMC (SAT), one generated harness per concrete shape, symbolic operation arguments"),
 "C13": dict(engine="K", cat="model_checking", ref="5 C13, 3.1",
   text="Kani/CBMC model-checks the compiled DfsPre, DfsEdge and Bfs traversals on concrete shapes (3-node chain, siblings, index-reuse layout; thorough: all shapes <=3 nodes for K=2 and six K=3 shapes): the start node is symbolic over all nodes and a symbolic skip_subtree decision follows the first item; the first two returned items (index, depth, remaining-sibling counter / src, label, dest), None when exhausted, and size_hint before and after every call must equal constants derived from the shape by the generator. Counterexamples are re-run natively on the real build.",
   note="bounded: the two leading items of each traversal (DfsEdge: the first; further calls do not finish / exhaust memory), shapes with <=3 nodes; the loop-based metrics (num_nodes, depth, path_to_node, index iterators, depth_stats) gave no verdict and are OUTSIDE the claim; slab replaced by a heap-free model (stub)",
   technique="bounded model checking of the compiled code with Kani/CBMC (SAT), symbolic start node and skip decisions on generated concrete shapes"),
 "C14": dict(engine="L", cat="model_checking", ref="5 C14, 3.2",
   text="The real generic Polytope functions (intersection, intersection_n, translate, apply_pre, apply_post, rotate, hypercube, hyperrectangle/axis_bounds with every pattern of infinite bounds, unbounded, empty, cross_polytope, from_normal, simplex, distance/distance_raw, contains) are compiled at a symbolic-real scalar and executed with every matrix entry, bias, point and argument symbolic (rows/dims <=3, <=4 thorough); every comparison in the code is a fork decided by z3 and the set-exactness law is asserted on every feasible path. apply_post/rotate are stated in pre-image form with a symbolic inverse and in image form with concrete exactly-invertible matrices; simplex through its documented vertices and recession cone.",
   note="exact real arithmetic stands in for f64 (counterexamples are replayed through the f64 instantiation); bounded by the dimension tuples listed in the evidence; z3 (QF_NRA) trusted; laws with the built-in 1e-8 containment tolerance are stated with the same tolerance on both sides",
   technique="path-exhaustive symbolic execution of the real generic code at a symbolic-real scalar, z3 (QF_NRA/LRA) on every branch and assertion"),
 "C15": dict(engine="L+T", cat="model_checking", ref="5 C15",
   text="Engine L: the real generic clean-up routines (remove_rows, remove_zero_rows, remove_tautologies, normalize, remove_duplicate_rows) are executed on a symbolic-real scalar with every matrix entry, bias and test point symbolic (rows<=3, dims<=2/3); every branch is a solver query and on every feasible path z3 decides same-point-set and subsequence. Engine T: remove_redundant_row_constraints on seeded systems by category; z3 decides that no point of the result violates a dropped row by a margin, that a canonical-empty result only replaces an empty system, and that no kept row is implied by the others by a margin.",
   note="engine L: exact real arithmetic stands in for f64, tolerance-carrying routines are specified with margins; path exploration bounded by the dimension bound; " + T_NOTE,
   technique="path-exhaustive symbolic execution of the generic code at a symbolic-real scalar with z3 (QF_NRA/LRA) on every branch and assertion; SMT certificate checks for the LP-based routine"),
 "C16": dict(engine="L", cat="model_checking", ref="5 C16, 3.2",
   text="The real generic AffFunc code (compose, stack, apply, apply_transpose, + - * / % in three ownership variants, both Neg impls and negate, row, row_iter, from_row_iter, remove_rows, remove_zero_rows, remove_zero_columns, view/to_owned, as_polytope/as_function/new, convert_to for every PolyRepr, identity, zeros, constant, unit, zero_idx, sum, subtraction (all index pairs), rotation, scaling, uniform_scaling, slice (every NaN pattern), translation, chebyshev_center structure) is executed at a symbolic-real scalar with all coefficients and inputs symbolic (dims <=3, <=4/5 thorough); each law is asserted and discharged by z3 on every feasible path.",
   note="exact real arithmetic stands in for f64 (counterexamples are replayed through the f64 instantiation); % is an uninterpreted function of its operands; bounded by the dimension tuples listed in the evidence",
   technique="path-exhaustive symbolic execution of the real generic code at a symbolic-real scalar, z3 (QF_NRA/LRA) on every branch and assertion"),
 "C17": dict(engine="T", cat="translation_validation", ref="5 C17",
   text="Every schema generator (dims 1..3/1..5, every row/class, a parameter lattice containing the degenerate points), from_poly on seeded polytopes and from_slice+remove_axes on generated trees is run for real; z3 decides per piece of the produced tree that no real input exists where it differs from the textbook definition written out as an exact piece list (strict/non-strict sides as in the definitions).",
   note=T_NOTE, technique="SMT (z3 QF_LRA) equivalence of exported schema trees against textbook piecewise definitions, all inputs symbolic"),
 "C18": dict(engine="T", cat="translation_validation", ref="5 C18",
   text="Builder call sequences over 15 symbols (all of length<=2, all/seeded of length 3, seeded 4-5) are run for real: every call's Ok/Err and current_shape is compared with a reference shape calculus and every accepted architecture is distilled (no panic, terminal output dimension = current_shape) - this clause is a comparison over an enumerated space, not a solver verdict; for every split point k z3 decides that extract_range(0,k) composed with extract_range(k,n) equals the whole tree for all inputs. read_layers is outside the claim.",
   note=T_NOTE + "; read_layers (zip+npy parsing) is not covered: no symbolic model of the file format within reach",
   technique="SMT (z3 QF_LRA) equivalence of split-and-composed trees against the whole tree for all inputs; shape calculus by comparison over enumerated call sequences"),
}

NOT_APPLICABLE = {
 "C04": "inductive step over AffTree (f64+ndarray payload in a slab arena) is not encodable: smallest Kani harness (3-node graft with nondeterministic LP stub) gave no verdict in 25 min; checking concrete histories would be enumeration, a different technique (DESIGN 5 C04)",
 "C19": "observable is float-to-decimal text from core::fmt; neither z3's string theory nor CBMC models Rust float printing, so there is no solver formulation of 'printed value equals stored value' (DESIGN 5 C19)",
}

PENDING = "check not yet built in this revision of /verif (planned, see DESIGN.md section 5)"

def main():
    ids = [json.loads(l)["id"] for l in open(os.path.join(V, "properties.jsonl"))]
    checks = []
    for pid in ids:
        if pid not in CHECKS:
            continue
        c = CHECKS[pid]
        checks.append({
            "property_id": pid,
            "quick_cmd": "./check %s --tier quick" % pid,
            "thorough_cmd": "./check %s --tier thorough" % pid,
            "evidence_file": "/verif/evidence/%s.json" % pid,
            "replay_cmd_template": "./check %s --replay {path}" % pid,
            "engine": c["engine"],
            "level_claimed": {"category": c["cat"], "text": c["text"], "design_ref": c["ref"]},
            "level_note": c["note"],
            "technique": c["technique"],
        })
    na = [{"property_id": p, "reason": NOT_APPLICABLE.get(p, PENDING)} for p in ids if p not in CHECKS]
    man = {
        "version": 1,
        "setup_cmd": "./setup.sh",
        "hooks": {
            "guard": "cfg(affinitree_verif)",
            "enable": "RUSTFLAGS=\"--cfg affinitree_verif\" cargo build (set by /verif/smt/core.py when it builds /verif/driver against /repo)",
            "baseline_off_cmd": "cd /repo && cargo test --workspace --no-fail-fast --offline",
            "source_commits": ["10e7488"],
            "add_only": True,
        },
        "engines": [
            {"name": "T", "path": "/verif/driver + /verif/smt", "serves_properties": [p for p in ids if CHECKS.get(p, {}).get("engine", "").startswith("T")],
             "kind_free_text": "real library builds the program (tree/network/system) from a case script; exact-rational encoding of the exported structure; z3 decides the property for all real inputs"},
            {"name": "L", "path": "/verif/lifted", "serves_properties": [p for p in ids if "L" in CHECKS.get(p, {}).get("engine", "")],
             "kind_free_text": "the real generic linalg functions monomorphised at a symbolic-real scalar; path exploration by re-execution; every branch and assertion discharged by z3"},
            {"name": "K", "path": "/verif/kani", "serves_properties": [p for p in ids if CHECKS.get(p, {}).get("engine", "") == "K"],
             "kind_free_text": "Kani/CBMC bounded model checking of the compiled arena tree, one generated harness per concrete shape"},
        ],
        "checks": checks,
        "not_applicable": na,
        "notes": "exit 0 = all decided obligations held; 1 = reproduced violation; 2 = machinery malfunction. See DESIGN.md.",
    }
    json.dump(man, open(os.path.join(V, "MANIFEST.json"), "w"), indent=1)

if __name__ == "__main__":
    main()

#!/bin/bash
# usage: tools/trymut.sh <patch.diff> <ID> [<ID>...]   -- applies a seeded change to /repo, runs the checks, undoes it
patch="$1"; shift
cd /repo || exit 2
if ! git apply --check "$patch" 2>/dev/null; then
  if git apply --check -3 "$patch" 2>/dev/null; then :; else echo "PATCH DOES NOT APPLY: $patch"; exit 3; fi
fi
git apply "$patch" || exit 3
trap 'git -C /repo checkout -- . ' EXIT
cd /verif
for id in "$@"; do
  out=$(./check "$id" 2>&1); code=$?
  echo "== $id exit=$code"
  echo "$out" | grep -E "^(VIOLATION|KNOWN-FINDING|MALFUNCTION|UNREPLAYED|UNDECIDED)" | cut -c1-300 | head -5
  echo "$out" | tail -1 | cut -c1-250
done

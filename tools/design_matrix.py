#!/usr/bin/env python3
"""replaces the seeded-change table of DESIGN.md section 11.8 (header row .. summary line) with the output of matrix_md.py"""
import os, re, subprocess
V = os.path.dirname(os.path.dirname(os.path.abspath(__file__)))
new = subprocess.run(["python3", os.path.join(V, "tools", "matrix_md.py")], capture_output=True, text=True, check=True).stdout.rstrip("\n").split("\n")
L = open(os.path.join(V, "DESIGN.md")).read().split("\n")
a = next(i for i, l in enumerate(L) if l.startswith("| seeded change | needs |"))
b = next(i for i, l in enumerate(L) if i > a and re.match(r"^\d+ seeded changes \(", l))
L[a:b + 1] = new
open(os.path.join(V, "DESIGN.md"), "w").write("\n".join(L))
print(new[-1])

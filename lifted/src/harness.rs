// Harnesses for C14, C15 (generic routines), C16: each is the property statement written over the real API,
// generic over the environment (symbolic exploration / f64 replay). d = dimension parameters.

use std::ops::Neg;

use affinitree::linalg::affine::{AffFuncBase, FunctionT, PolyRepr, PolytopeT};
use ndarray::{arr1, Array1, Array2, OwnedRepr};
use num_traits::Float;

use crate::env::Env;

pub type Fun<A> = AffFuncBase<FunctionT, OwnedRepr<A>>;
pub type Poly<A> = AffFuncBase<PolytopeT, OwnedRepr<A>>;

// ------------------------------------------------------------------ helpers (specification side)

fn dot<A: Float>(a: &[A], x: &Array1<A>) -> A {
    let mut s = A::zero();
    for (ai, xi) in a.iter().zip(x.iter()) {
        s = s + *ai * *xi;
    }
    s
}

/// exact membership A x <= b, written out row by row (no tolerance)
fn member<A: Float>(mat: &Array2<A>, bias: &Array1<A>, x: &Array1<A>) -> bool {
    for i in 0..mat.nrows() {
        let row: Vec<A> = mat.row(i).iter().cloned().collect();
        if !(dot(&row, x) <= bias[i]) {
            return false;
        }
    }
    true
}

/// membership with the library's documented containment tolerance (b - a.x >= -1e-8), written out
fn member_tol<A: Float>(mat: &Array2<A>, bias: &Array1<A>, x: &Array1<A>) -> bool {
    let tol = A::from(-1e-8).unwrap();
    for i in 0..mat.nrows() {
        let row: Vec<A> = mat.row(i).iter().cloned().collect();
        if !(bias[i] - dot(&row, x) >= tol) {
            return false;
        }
    }
    true
}

fn matvec<A: Float>(m: &Array2<A>, x: &Array1<A>) -> Array1<A> {
    Array1::from_iter((0..m.nrows()).map(|i| {
        let row: Vec<A> = m.row(i).iter().cloned().collect();
        dot(&row, x)
    }))
}

fn check_vec_eq<E: Env>(e: &mut E, a: &Array1<E::A>, b: &Array1<E::A>, label: &str) {
    e.check(a.len() == b.len(), &format!("{label}: length"));
    for i in 0..a.len().min(b.len()) {
        e.check_eq(a[i], b[i], &format!("{label}: component {i}"));
    }
}

fn check_mat_eq<E: Env>(e: &mut E, a: &Array2<E::A>, b: &Array2<E::A>, label: &str) {
    e.check(a.dim() == b.dim(), &format!("{label}: shape"));
    if a.dim() != b.dim() {
        return;
    }
    for i in 0..a.nrows() {
        for j in 0..a.ncols() {
            e.check_eq(a[[i, j]], b[[i, j]], &format!("{label}: entry {i},{j}"));
        }
    }
}

fn poly<E: Env>(e: &mut E, name: &str, m: usize, n: usize) -> Poly<E::A> {
    let a = e.mat(&format!("{name}A"), m, n);
    let b = e.vec(&format!("{name}b"), m);
    Poly::<E::A>::from_mats(a, b)
}

fn fun<E: Env>(e: &mut E, name: &str, m: usize, n: usize) -> Fun<E::A> {
    let a = e.mat(&format!("{name}M"), m, n);
    let b = e.vec(&format!("{name}c"), m);
    Fun::<E::A>::from_mats(a, b)
}

// ------------------------------------------------------------------ C14

pub fn c14_intersection<E: Env>(e: &mut E, d: &[usize]) {
    let (m1, m2, n) = (d[0], d[1], d[2]);
    let p = poly(e, "P", m1, n);
    let q = poly(e, "Q", m2, n);
    let x = e.vec("x", n);
    let r = p.intersection(&q);
    let lhs = r.contains(&x);
    let rhs = p.contains(&x) && q.contains(&x);
    e.check(lhs == rhs, "x in P.intersection(Q) iff x in P and x in Q");
    e.check(r.n_constraints() == m1 + m2, "intersection keeps every row");
}

pub fn c14_intersection_n<E: Env>(e: &mut E, d: &[usize]) {
    let (k, m, n) = (d[0], d[1], d[2]);
    let ps: Vec<Poly<E::A>> = (0..k).map(|i| poly(e, &format!("P{i}"), m, n)).collect();
    let x = e.vec("x", n);
    let r = Poly::<E::A>::intersection_n(n, ps.as_slice());
    let lhs = r.contains(&x);
    let mut rhs = true;
    for p in &ps {
        if !p.contains(&x) {
            rhs = false;
            break;
        }
    }
    e.check(lhs == rhs, "x in intersection_n iff x in every operand (empty list: whole space)");
}

pub fn c14_translate<E: Env>(e: &mut E, d: &[usize]) {
    let (m, n) = (d[0], d[1]);
    let p = poly(e, "P", m, n);
    let dir = e.vec("d", n);
    let x = e.vec("x", n);
    let t = p.translate(&dir);
    let xm = &x - &dir;
    e.check(t.contains(&x) == p.contains(&xm), "x in P.translate(d) iff x-d in P");
}

pub fn c14_apply_pre<E: Env>(e: &mut E, d: &[usize]) {
    let (m, n, k) = (d[0], d[1], d[2]);
    let p = poly(e, "P", m, n);
    let f = fun(e, "f", n, k);
    let x = e.vec("x", k);
    let q = p.apply_pre(&f);
    let fx = f.apply(&x);
    e.check(q.contains(&x) == p.contains(&fx), "x in P.apply_pre(f) iff f(x) in P");
}

/// concrete invertible matrices with exactly representable inverses (index -> (M, M^-1))
fn invertible_pair(n: usize, which: usize) -> (Vec<Vec<f64>>, Vec<Vec<f64>>) {
    let id = |n: usize| (0..n).map(|i| (0..n).map(|j| if i == j { 1.0 } else { 0.0 }).collect::<Vec<f64>>()).collect::<Vec<_>>();
    let mut m = id(n);
    let mut w = id(n);
    match which % 4 {
        0 => {
            // scaling by powers of two
            for i in 0..n {
                let s = [2.0, 0.5, -4.0][i % 3];
                m[i][i] = s;
                w[i][i] = 1.0 / s;
            }
        }
        1 => {
            // shear
            if n >= 2 {
                m[0][1] = 3.0;
                w[0][1] = -3.0;
            } else {
                m[0][0] = -1.0;
                w[0][0] = -1.0;
            }
        }
        2 => {
            // signed cyclic permutation (orthogonal)
            for i in 0..n {
                for j in 0..n {
                    m[i][j] = 0.0;
                    w[i][j] = 0.0;
                }
            }
            for i in 0..n {
                let s = if i % 2 == 0 { 1.0 } else { -1.0 };
                m[(i + 1) % n][i] = s;
                w[i][(i + 1) % n] = s;
            }
        }
        _ => {
            // shear composed with scaling
            if n >= 2 {
                m[1][0] = -2.0;
                m[0][0] = 2.0;
                // M = [[2,0],[-2,1]] -> inverse [[1/2,0],[1,1]]
                w[0][0] = 0.5;
                w[1][0] = 1.0;
            } else {
                m[0][0] = 8.0;
                w[0][0] = 0.125;
            }
        }
    }
    (m, w)
}

fn to_mat<E: Env>(e: &E, v: &[Vec<f64>]) -> Array2<E::A> {
    let n = v.len();
    let mut a = Array2::from_elem((n, v[0].len()), e.k(0.0));
    for i in 0..n {
        for j in 0..v[0].len() {
            a[[i, j]] = e.k(v[i][j]);
        }
    }
    a
}

pub fn c14_apply_post<E: Env>(e: &mut E, d: &[usize]) {
    // every point of the result is the image of a point of P: y in P.apply_post(W, t) iff W (y - t) in P,
    // for every matrix W given as the inverse (the image of P under x -> W^-1 x + t is exactly that set)
    let (m, n) = (d[0], d[1]);
    let p = poly(e, "P", m, n);
    let w = e.mat("W", n, n);
    let t = e.vec("t", n);
    let q = p.apply_post(&w, &t);
    let y = e.vec("y", n);
    let back = matvec(&w, &(&y - &t));
    e.check(q.contains(&y) == p.contains(&back), "y in P.apply_post(M^-1, t) iff M^-1 (y - t) in P");
}

pub fn c14_apply_post_image<E: Env>(e: &mut E, d: &[usize]) {
    // images of P's points lie in the result, for concrete invertible M (index d[2]) and symbolic P, t, x
    let (m, n, which) = (d[0], d[1], d[2]);
    let p = poly(e, "P", m, n);
    let (mv, wv) = invertible_pair(n, which);
    let mm = to_mat(e, &mv);
    let mi = to_mat(e, &wv);
    let t = e.vec("t", n);
    let q = p.apply_post(&mi, &t);
    let x = e.vec("x", n);
    let y = &matvec(&mm, &x) + &t;
    e.check(p.contains(&x) == q.contains(&y), "x in P iff M x + t in P.apply_post(M^-1, t)");
}

pub fn c14_rotate<E: Env>(e: &mut E, d: &[usize]) {
    // y in P.rotate(Q) iff Q^T y in P (for orthogonal Q, Q^T y is the pre-image of y)
    let (m, n) = (d[0], d[1]);
    let p = poly(e, "P", m, n);
    let q = e.mat("Q", n, n);
    let r = p.rotate(&q);
    let y = e.vec("y", n);
    let back = matvec(&q.t().to_owned(), &y);
    e.check(r.contains(&y) == p.contains(&back), "y in P.rotate(Q) iff Q^T y in P");
}

pub fn c14_rotate_image<E: Env>(e: &mut E, d: &[usize]) {
    // images under a concrete orthogonal matrix (signed permutation): x in P iff Q x in P.rotate(Q)
    let (m, n) = (d[0], d[1]);
    let p = poly(e, "P", m, n);
    let (qv, _) = invertible_pair(n, 2);
    let q = to_mat(e, &qv);
    let r = p.rotate(&q);
    let x = e.vec("x", n);
    let y = matvec(&q, &x);
    e.check(p.contains(&x) == r.contains(&y), "x in P iff Q x in P.rotate(Q) for orthogonal Q");
}

pub fn c14_hypercube<E: Env>(e: &mut E, d: &[usize]) {
    let n = d[0];
    let r = e.real("r");
    let x = e.vec("x", n);
    let p = Poly::<E::A>::hypercube(n, r);
    let tol = e.k(1e-8);
    let mut spec = true;
    for i in 0..n {
        if !(x[i] <= r + tol && -x[i] <= r + tol) {
            spec = false;
            break;
        }
    }
    e.check(p.contains(&x) == spec, "x in hypercube(n, r) iff |x_i| <= r for all i (within 1e-8)");
}

pub fn c14_hyperrectangle<E: Env>(e: &mut E, d: &[usize]) {
    // d[0] = n, d[1] = pattern of infinite bounds: 2 bits per axis (bit0: lower infinite, bit1: upper infinite);
    // optional d[2] = same layout: the finite bound is the constant 0.0 (0.0 is not "normal" for f64::is_normal) instead of a symbol
    let (n, pat) = (d[0], d[1]);
    let zmask = if d.len() > 2 { d[2] } else { 0 };
    let mut iv = Vec::new();
    let mut los = Vec::new();
    let mut his = Vec::new();
    for i in 0..n {
        let lo_inf = (pat >> (2 * i)) & 1 == 1;
        let hi_inf = (pat >> (2 * i + 1)) & 1 == 1;
        let lo_zero = (zmask >> (2 * i)) & 1 == 1;
        let hi_zero = (zmask >> (2 * i + 1)) & 1 == 1;
        let lo = if lo_inf { e.k(f64::NEG_INFINITY) } else if lo_zero { e.k(0.0) } else { e.real(&format!("lo_{i}")) };
        let hi = if hi_inf { e.k(f64::INFINITY) } else if hi_zero { e.k(0.0) } else { e.real(&format!("hi_{i}")) };
        if !lo_inf && !hi_inf {
            e.assume(lo <= hi);
        }
        iv.push((lo, hi));
        los.push(if lo_inf { None } else { Some(lo) });
        his.push(if hi_inf { None } else { Some(hi) });
    }
    let x = e.vec("x", n);
    let p = Poly::<E::A>::hyperrectangle(&iv);
    let tol = e.k(1e-8);
    let mut spec = true;
    for i in 0..n {
        if let Some(lo) = los[i] {
            if !(x[i] >= lo - tol) {
                spec = false;
                break;
            }
        }
        if let Some(hi) = his[i] {
            if !(x[i] <= hi + tol) {
                spec = false;
                break;
            }
        }
    }
    e.check(p.contains(&x) == spec, "x in hyperrectangle iff lo_i <= x_i <= hi_i on every axis (infinite bounds unbounded)");
}

pub fn c14_axis_bounds<E: Env>(e: &mut E, d: &[usize]) {
    let (n, axis, pat) = (d[0], d[1], d[2]);
    let lo_inf = pat & 1 == 1;
    let hi_inf = pat & 2 == 2;
    let zmask = if d.len() > 3 { d[3] } else { 0 };      // bit0 / bit1: the finite lower / upper bound is the constant 0.0
    let lo = if lo_inf { e.k(f64::NEG_INFINITY) } else if zmask & 1 == 1 { e.k(0.0) } else { e.real("lo") };
    let hi = if hi_inf { e.k(f64::INFINITY) } else if zmask & 2 == 2 { e.k(0.0) } else { e.real("hi") };
    if !lo_inf && !hi_inf {
        e.assume(lo <= hi);
    }
    let x = e.vec("x", n);
    let p = Poly::<E::A>::axis_bounds(n, axis, lo, hi);
    let tol = e.k(1e-8);
    let mut spec = true;
    if !lo_inf && !(x[axis] >= lo - tol) {
        spec = false;
    }
    if spec && !hi_inf && !(x[axis] <= hi + tol) {
        spec = false;
    }
    e.check(p.contains(&x) == spec, "x in axis_bounds(axis, lo, hi) iff lo <= x_axis <= hi (infinite bounds unbounded)");
    // distance is signed accordingly: strictly inside a finite bound => positive distance to that bound's row
    let dist = p.distance_raw(&x);
    if !lo_inf {
        e.check((x[axis] > lo) == (dist[0] > e.k(0.0)), "distance to the lower bound is positive iff x_axis > lo");
    }
    if !hi_inf {
        e.check((x[axis] < hi) == (dist[1] > e.k(0.0)), "distance to the upper bound is positive iff x_axis < hi");
    }
}

pub fn c14_unbounded_empty<E: Env>(e: &mut E, d: &[usize]) {
    let n = d[0];
    let x = e.vec("x", n);
    e.check(Poly::<E::A>::unbounded(n).contains(&x), "every x lies in unbounded(n)");
    e.check(!Poly::<E::A>::empty(n).contains(&x), "no x lies in empty(n)");
}

pub fn c14_cross_polytope<E: Env>(e: &mut E, d: &[usize]) {
    let n = d[0];
    let x = e.vec("x", n);
    let p = Poly::<E::A>::cross_polytope(n);
    let mut l1 = e.k(0.0);
    for i in 0..n {
        l1 = l1 + Float::abs(x[i]);
    }
    let spec = e.k(1.0) - l1 >= e.k(-1e-8);
    e.check(p.contains(&x) == spec, "x in cross_polytope(n) iff sum |x_i| <= 1 (within 1e-8)");
}

pub fn c14_from_normal<E: Env>(e: &mut E, d: &[usize]) {
    let (m, n) = (d[0], d[1]);
    let nv = e.mat("N", m, n);
    let pts = e.mat("p", m, n);
    let x = e.vec("x", n);
    let p = Poly::<E::A>::from_normal(nv.clone(), pts.clone());
    let tol = e.k(-1e-8);
    let mut spec = true;
    for i in 0..m {
        let mut s = e.k(0.0);
        for j in 0..n {
            s = s + nv[[i, j]] * (x[j] - pts[[i, j]]);
        }
        if !(s >= tol) {
            spec = false;
            break;
        }
    }
    e.check(p.contains(&x) == spec, "x in from_normal(N, p) iff n_i . (x - p_i) >= 0 for all i (within 1e-8)");
}

pub fn c14_simplex<E: Env>(e: &mut E, d: &[usize]) {
    let n = d[0];
    let p = Poly::<E::A>::simplex(n);
    e.check(p.n_constraints() == n + 1 && p.indim() == n, "simplex(n) has n+1 facets in dimension n");
    // the documented vertices: the unit vectors and t*(1,..,1) with t = -1/(1+sqrt(n+1)); each makes exactly n rows tight
    let t = -1.0 / (1.0 + ((n + 1) as f64).sqrt());
    let slack = 1e-9;
    for v in 0..=n {
        let pt: Vec<f64> = (0..n).map(|j| if v < n { if j == v { 1.0 } else { 0.0 } } else { t }).collect();
        let x = Array1::from_iter(pt.iter().map(|c| e.k(*c)));
        let dist = p.distance_raw(&x);
        let mut tight = 0;
        for i in 0..=n {
            let di = dist[i];
            e.check(di >= e.k(-slack), "vertex satisfies every row");
            if Float::abs(di) <= e.k(slack) {
                tight += 1;
            } else {
                e.check(di >= e.k(1e-3), "non-tight rows are clearly slack at a vertex");
            }
        }
        e.check(tight == n, "exactly n rows are tight at each documented vertex");
    }
    // edge length sqrt(2) between the documented vertices (regular simplex)
    let origin = Array1::from_elem(n, e.k(0.0));
    e.check(p.contains(&origin), "the origin lies in simplex(n)");
    // bounded: the recession cone is {0}
    let dir = e.vec("d", n);
    let ad = matvec(&p.mat, &dir);
    for i in 0..=n {
        let z = e.k(0.0);
        e.assume_rel(ad[i], "<=", z);
    }
    for j in 0..n {
        let z = e.k(0.0);
        e.check_eq(dir[j], z, "A d <= 0 implies d = 0 (simplex is bounded)");
    }
}

pub fn c14_distance<E: Env>(e: &mut E, d: &[usize]) {
    let (m, n) = (d[0], d[1]);
    let p = poly(e, "P", m, n);
    let x = e.vec("x", n);
    // rows are non-zero (zero rows are run as concrete specials)
    for i in 0..m {
        let mut nz = false;
        for j in 0..n {
            if p.mat[[i, j]] != e.k(0.0) {
                nz = true;
                break;
            }
        }
        e.assume(nz);
    }
    let raw = p.distance_raw(&x);
    for i in 0..m {
        let row: Vec<E::A> = p.mat.row(i).iter().cloned().collect();
        e.check_eq(raw[i], p.bias[i] - dot(&row, &x), "distance_raw_i = b_i - a_i . x");
    }
    let dist = p.distance(&x);
    for i in 0..m {
        e.check((raw[i] > e.k(0.0)) == (dist[i] > e.k(0.0)), "distance positive iff strictly inside the half-space");
        e.check((raw[i] < e.k(0.0)) == (dist[i] < e.k(0.0)), "distance negative iff outside the half-space");
    }
}

pub fn c14_distance_norm<E: Env>(e: &mut E, d: &[usize]) {
    // distance = distance_raw / |a| : checked with the exact sqrt witness on one row
    let n = d[0];
    let p = poly(e, "P", 1, n);
    let x = e.vec("x", n);
    let mut nz = false;
    for j in 0..n {
        if p.mat[[0, j]] != e.k(0.0) {
            nz = true;
            break;
        }
    }
    e.assume(nz);
    let raw = p.distance_raw(&x);
    let dist = p.distance(&x);
    let mut sq = e.k(0.0);
    for j in 0..n {
        sq = sq + p.mat[[0, j]] * p.mat[[0, j]];
    }
    e.check_eq(dist[0] * dist[0] * sq, raw[0] * raw[0], "distance^2 * |a|^2 = distance_raw^2");
}

pub fn c14_distance_zero_row<E: Env>(e: &mut E, d: &[usize]) {
    // documented: "Returns f64::INFINITY if the corresponding halfspace includes all points" (concrete special)
    let n = d[0];
    let x = e.vec("x", n);
    let _ = x;
    let xc = Array1::from_elem(n, e.k(0.5));
    for (b, name) in [(1.0, "0.x <= 1"), (0.0, "0.x <= 0")] {
        let p = Poly::<E::A>::from_mats(Array2::from_elem((1, n), e.k(0.0)), arr1(&[e.k(b)]));
        let dist = p.distance(&xc);
        e.check(dist[0] == e.k(f64::INFINITY), &format!("distance to the all-including half-space {name} is +infinity"));
    }
}

// ------------------------------------------------------------------ C15 (generic routines)

fn rows_subsequence<E: Env>(e: &mut E, res: &Poly<E::A>, inp: &Poly<E::A>, kept: &[usize], label: &str) {
    e.check(res.n_constraints() == kept.len(), &format!("{label}: number of rows"));
    if res.n_constraints() != kept.len() {
        return;
    }
    for (k, &i) in kept.iter().enumerate() {
        for j in 0..inp.indim() {
            e.check_eq(res.mat[[k, j]], inp.mat[[i, j]], &format!("{label}: row {k} is input row {i}"));
        }
        e.check_eq(res.bias[k], inp.bias[i], &format!("{label}: bias {k} is input bias {i}"));
    }
}

pub fn c15_remove_rows<E: Env>(e: &mut E, d: &[usize]) {
    let (m, n, mask) = (d[0], d[1], d[2]);
    let p = poly(e, "P", m, n);
    let remove: Vec<usize> = (0..m).filter(|i| (mask >> i) & 1 == 1).collect();
    let kept: Vec<usize> = (0..m).filter(|i| (mask >> i) & 1 == 0).collect();
    let r = p.remove_rows(remove.clone());
    rows_subsequence(e, &r, &p, &kept, "remove_rows");
}

pub fn c15_remove_zero_rows<E: Env>(e: &mut E, d: &[usize]) {
    let (m, n) = (d[0], d[1]);
    let p = poly(e, "P", m, n);
    let x = e.vec("x", n);
    let r = p.remove_zero_rows();
    // specification: exactly the rows 0.x <= 0 go away
    let mut kept = Vec::new();
    for i in 0..m {
        let mut nz = p.bias[i] != e.k(0.0);
        if !nz {
            for j in 0..n {
                if p.mat[[i, j]] != e.k(0.0) {
                    nz = true;
                    break;
                }
            }
        }
        if nz {
            kept.push(i);
        }
    }
    rows_subsequence(e, &r, &p, &kept, "remove_zero_rows");
    e.check(member(&r.mat, &r.bias, &x) == member(&p.mat, &p.bias, &x), "remove_zero_rows keeps the point set");
}

pub fn c15_remove_tautologies<E: Env>(e: &mut E, d: &[usize]) {
    let (m, n) = (d[0], d[1]);
    let p = poly(e, "P", m, n);
    let x = e.vec("x", n);
    let r = p.remove_tautologies();
    e.check(member(&r.mat, &r.bias, &x) == member(&p.mat, &p.bias, &x), "remove_tautologies keeps the point set");
    // subsequence, unless replaced by the canonical empty / unbounded polytope
    let mut zero_rows = Vec::new();
    let mut infeasible = false;
    for i in 0..m {
        let mut z = true;
        for j in 0..n {
            if p.mat[[i, j]] != e.k(0.0) {
                z = false;
                break;
            }
        }
        if z {
            zero_rows.push(i);
            if p.bias[i] < e.k(0.0) {
                infeasible = true;
            }
        }
    }
    if infeasible {
        let em = Poly::<E::A>::empty(n);
        check_mat_eq(e, &r.mat, &em.mat, "infeasible system is replaced by empty(n)");
        check_vec_eq(e, &r.bias, &em.bias, "infeasible system is replaced by empty(n)");
    } else {
        let kept: Vec<usize> = (0..m).filter(|i| !zero_rows.contains(i)).collect();
        if kept.is_empty() {
            let ub = Poly::<E::A>::unbounded(n);
            check_mat_eq(e, &r.mat, &ub.mat, "all rows tautologies: unbounded(n)");
            check_vec_eq(e, &r.bias, &ub.bias, "all rows tautologies: unbounded(n)");
        } else {
            rows_subsequence(e, &r, &p, &kept, "remove_tautologies");
        }
    }
}

pub fn c15_normalize<E: Env>(e: &mut E, d: &[usize]) {
    let (m, n) = (d[0], d[1]);
    let p = poly(e, "P", m, n);
    let x = e.vec("x", n);
    let r = p.clone().normalize();
    e.check(r.n_constraints() == m, "normalize keeps every row");
    e.check(member(&r.mat, &r.bias, &x) == member(&p.mat, &p.bias, &x), "normalize keeps the point set");
    // rows are multiples of the input rows (cross ratios), direction preserved by the set equality above
    for i in 0..m {
        for j in 0..n {
            e.check_eq(r.mat[[i, j]] * p.bias[i], r.bias[i] * p.mat[[i, j]], "normalized row proportional to the input row (bias)");
            for l in (j + 1)..n {
                e.check_eq(r.mat[[i, j]] * p.mat[[i, l]], r.mat[[i, l]] * p.mat[[i, j]], "normalized row proportional to the input row");
            }
        }
    }
}

pub fn c15_normalize_unit<E: Env>(e: &mut E, d: &[usize]) {
    // rows with norm > eps end up with unit norm (exact sqrt witness, one row)
    let n = d[0];
    let p = poly(e, "P", 1, n);
    let mut sq = e.k(0.0);
    for j in 0..n {
        sq = sq + p.mat[[0, j]] * p.mat[[0, j]];
    }
    let lo = e.k(1.0 / 1024.0);
    e.assume_rel(sq, ">=", lo);
    let r = p.clone().normalize();
    let mut rs = e.k(0.0);
    for j in 0..n {
        rs = rs + r.mat[[0, j]] * r.mat[[0, j]];
    }
    let one = e.k(1.0);
    e.check_eq(rs, one, "normalized row has unit Euclidean norm");
}

pub fn c15_remove_duplicate_rows<E: Env>(e: &mut E, d: &[usize]) {
    // structured system: row 1 = lambda * row 0 (lambda > 0) with bias either lambda*b0 (duplicate) or clearly different;
    // optional third row not parallel to row 0
    let (n, third) = (d[0], d[1]);
    let a0 = e.vec("a", n);
    let b0 = e.real("b");
    let lam = e.real("lam");
    let delta = e.real("delta");
    e.assume(lam >= e.k(0.25) && lam <= e.k(4.0));
    let mut sq = e.k(0.0);
    for j in 0..n {
        sq = sq + a0[j] * a0[j];
    }
    e.assume(sq >= e.k(1.0 / 16.0) && sq <= e.k(16.0));
    e.assume(b0 >= e.k(-4.0) && b0 <= e.k(4.0));
    // delta = 0: exact positive multiple; otherwise the biases differ clearly (margin form, DESIGN 4.2)
    e.assume(delta == e.k(0.0) || delta >= e.k(1e-3) || delta <= e.k(-1e-3));
    let m = if third == 1 { 3 } else { 2 };
    let mut mat = Array2::from_elem((m, n), e.k(0.0));
    let mut bias = Array1::from_elem(m, e.k(0.0));
    for j in 0..n {
        mat[[0, j]] = a0[j];
        mat[[1, j]] = lam * a0[j];
    }
    bias[0] = b0;
    bias[1] = lam * (b0 + delta);
    if third == 1 {
        let c = e.vec("c", n);
        let cb = e.real("cb");
        // third row: orthogonal to row 0 and of moderate size, so it is clearly no duplicate
        let mut ip = e.k(0.0);
        let mut csq = e.k(0.0);
        for j in 0..n {
            ip = ip + c[j] * a0[j];
            csq = csq + c[j] * c[j];
        }
        e.assume(ip == e.k(0.0));
        e.assume(csq >= e.k(1.0 / 16.0) && csq <= e.k(16.0));
        for j in 0..n {
            mat[[2, j]] = c[j];
        }
        bias[2] = cb;
    }
    let p = Poly::<E::A>::from_mats(mat, bias);
    let x = e.vec("x", n);
    let r = p.remove_duplicate_rows();
    e.check(member(&r.mat, &r.bias, &x) == member(&p.mat, &p.bias, &x), "remove_duplicate_rows keeps the point set");
    let dup = delta == e.k(0.0);
    let kept: Vec<usize> = if dup { (0..m).filter(|i| *i != 1).collect() } else { (0..m).collect() };
    rows_subsequence(e, &r, &p, &kept, "remove_duplicate_rows drops exactly the later exact duplicate");
}

/// deterministic lattice generator (k/4, |k| <= 16) for the concrete-program harnesses
struct Lcg(u64);
impl Lcg {
    fn next(&mut self) -> u64 {
        self.0 = self.0.wrapping_mul(6364136223846793005).wrapping_add(1442695040888963407);
        self.0 >> 33
    }
    fn coef(&mut self) -> f64 {
        let r = self.next() % 10;
        if r < 2 {
            0.0
        } else {
            ((self.next() % 33) as f64 - 16.0) / 4.0
        }
    }
}

fn lattice_system(seed: usize, m: usize, n: usize) -> (Vec<Vec<f64>>, Vec<f64>) {
    let mut g = Lcg(seed as u64 * 7919 + 17);
    let mut a: Vec<Vec<f64>> = (0..m).map(|_| (0..n).map(|_| g.coef()).collect()).collect();
    let mut b: Vec<f64> = (0..m).map(|_| g.coef()).collect();
    // structured cases: exact duplicates, positive multiples, parallel rows with another bias, opposite rows, zero rows
    if m >= 2 {
        match seed % 8 {
            0 => {
                a[m - 1] = a[0].clone();
                b[m - 1] = b[0];
            }
            1 => {
                a[m - 1] = a[0].iter().map(|v| 2.0 * v).collect();
                b[m - 1] = 2.0 * b[0];
            }
            2 => {
                a[m - 1] = a[0].iter().map(|v| 0.5 * v).collect();
                b[m - 1] = 0.5 * b[0] + 1.0;
            }
            3 => {
                a[m - 1] = a[0].iter().map(|v| -v).collect();
                b[m - 1] = -b[0];
            }
            4 => {
                a[m - 1] = vec![0.0; n];
            }
            5 => {
                // later parallel row that is strictly tighter
                a[m - 1] = a[0].iter().map(|v| 2.0 * v).collect();
                b[m - 1] = 2.0 * b[0] - 1.0;
            }
            6 => {
                a[m - 1] = a[0].clone();
                b[m - 1] = b[0] - 0.25;
            }
            _ => {
                // later parallel row of another positive scale with the *identical raw* bias (round 8, C15-c8): not a
                // duplicate unless the bias is 0, and the tighter of the two whenever the bias is positive
                if b[0] == 0.0 {
                    b[0] = 1.0;
                }
                let lam = if seed % 16 == 7 { 2.0 } else { 0.5 };
                a[m - 1] = a[0].iter().map(|v| lam * v).collect();
                b[m - 1] = b[0];
            }
        }
    }
    (a, b)
}

pub fn c15_normalize_concrete<E: Env>(e: &mut E, d: &[usize]) {
    // program concrete (lattice system from the seed), points symbolic: the f64 rounding of a/|a| is absorbed by margins
    let (m, n, seed) = (d[0], d[1], d[2]);
    let (a, b) = lattice_system(seed, m, n);
    let p = Poly::<E::A>::from_mats(to_mat(e, &a), Array1::from_iter(b.iter().map(|v| e.k(*v))));
    let r = p.clone().normalize();
    e.check(r.n_constraints() == m, "normalize keeps every row");
    let x = e.vec("x", n);
    for j in 0..n {
        let (lo, hi) = (e.k(-16.0), e.k(16.0));
        e.assume_rel(x[j], ">=", lo);
        e.assume_rel(x[j], "<=", hi);
    }
    let margin = e.k(1e-6);
    let px = matvec(&p.mat, &x);
    let rx = matvec(&r.mat, &x);
    for i in 0..m {
        // inside the input row by a margin => inside the normalized row; outside by a margin => outside
        if px[i] <= p.bias[i] - margin {
            e.check(rx[i] <= r.bias[i], "normalize: a point inside a row by a margin stays inside");
        } else if px[i] >= p.bias[i] + margin {
            e.check(rx[i] > r.bias[i], "normalize: a point outside a row by a margin stays outside");
        }
    }
    // rows with norm > eps have unit norm afterwards (concrete, up to rounding)
    for i in 0..m {
        let mut s_in = e.k(0.0);
        let mut s_out = e.k(0.0);
        for j in 0..n {
            s_in = s_in + p.mat[[i, j]] * p.mat[[i, j]];
            s_out = s_out + r.mat[[i, j]] * r.mat[[i, j]];
        }
        if s_in > e.k(0.0) {
            e.check(Float::abs(s_out - e.k(1.0)) <= e.k(1e-12), "normalized non-zero row has unit norm");
        } else {
            e.check(s_out == e.k(0.0) && r.bias[i] == p.bias[i], "zero row is left unchanged");
        }
    }
}

pub fn c15_remove_duplicate_concrete<E: Env>(e: &mut E, d: &[usize]) {
    // program concrete (lattice system with duplicates / multiples / parallel rows), points symbolic
    let (m, n, seed) = (d[0], d[1], d[2]);
    let (a, b) = lattice_system(seed, m, n);
    let p = Poly::<E::A>::from_mats(to_mat(e, &a), Array1::from_iter(b.iter().map(|v| e.k(*v))));
    let r = p.remove_duplicate_rows();
    // specification on the lattice (exact in f64): row i is dropped iff an earlier row j is an exact positive multiple of it
    let is_mult = |i: usize, j: usize| -> bool {
        // find lambda > 0 with (a_i, b_i) = lambda (a_j, b_j)
        let vi: Vec<f64> = a[i].iter().cloned().chain(std::iter::once(b[i])).collect();
        let vj: Vec<f64> = a[j].iter().cloned().chain(std::iter::once(b[j])).collect();
        if a[i].iter().all(|v| *v == 0.0) || a[j].iter().all(|v| *v == 0.0) {
            return false; // zero rows are not normalised; outside this specification (kept)
        }
        for k in 0..vi.len() {
            for l in 0..vi.len() {
                if vi[k] * vj[l] != vi[l] * vj[k] {
                    return false;
                }
            }
        }
        let k = a[i].iter().position(|v| *v != 0.0).unwrap();
        a[i][k] * a[j][k] > 0.0
    };
    let mut kept = Vec::new();
    for i in 0..m {
        if !(0..i).any(|j| is_mult(i, j)) {
            kept.push(i);
        }
    }
    if a.iter().any(|row| row.iter().all(|v| *v == 0.0)) {
        // with zero rows present only the set is specified
    } else {
        rows_subsequence(e, &r, &p, &kept, "remove_duplicate_rows drops exactly the later positive multiples");
    }
    let x = e.vec("x", n);
    e.check(member(&r.mat, &r.bias, &x) == member(&p.mat, &p.bias, &x), "remove_duplicate_rows keeps the point set");
}

// ------------------------------------------------------------------ C16

pub fn c16_compose<E: Env>(e: &mut E, d: &[usize]) {
    let (p, m, n) = (d[0], d[1], d[2]);
    let f = fun(e, "f", p, m);
    let g = fun(e, "g", m, n);
    let x = e.vec("x", n);
    let h = f.compose(&g);
    check_vec_eq(e, &h.apply(&x), &f.apply(&g.apply(&x)), "compose(f,g)(x) = f(g(x))");
}

pub fn c16_stack<E: Env>(e: &mut E, d: &[usize]) {
    let (m1, m2, n) = (d[0], d[1], d[2]);
    let f = fun(e, "f", m1, n);
    let g = fun(e, "g", m2, n);
    let x = e.vec("x", n);
    let h = f.stack(&g);
    let (fx, gx) = (f.apply(&x), g.apply(&x));
    let want = Array1::from_iter(fx.iter().chain(gx.iter()).cloned());
    check_vec_eq(e, &h.apply(&x), &want, "stack(f,g)(x) = (f(x), g(x))");
}

pub fn c16_apply<E: Env>(e: &mut E, d: &[usize]) {
    let (m, n) = (d[0], d[1]);
    let f = fun(e, "f", m, n);
    let x = e.vec("x", n);
    check_vec_eq(e, &f.apply(&x), &(&matvec(&f.mat, &x) + &f.bias), "apply(x) = M x + c");
    let y = e.vec("y", m);
    let want = matvec(&f.mat.t().to_owned(), &(&y - &f.bias));
    check_vec_eq(e, &f.apply_transpose(&y), &want, "apply_transpose(y) = M^T (y - c)");
}

fn coeffwise<E: Env>(e: &mut E, h: &Fun<E::A>, f: &Fun<E::A>, g: &Fun<E::A>, op: usize, label: &str) {
    e.check(h.mat.dim() == f.mat.dim(), &format!("{label}: shape"));
    for i in 0..f.mat.nrows() {
        for j in 0..f.mat.ncols() {
            let (a, b) = (f.mat[[i, j]], g.mat[[i, j]]);
            let want = match op { 0 => a + b, 1 => a - b, 2 => a * b, 3 => a / b, _ => a % b };
            e.check_eq(h.mat[[i, j]], want, &format!("{label}: matrix entry {i},{j} coefficient-wise"));
        }
        let (a, b) = (f.bias[i], g.bias[i]);
        let want = match op { 0 => a + b, 1 => a - b, 2 => a * b, 3 => a / b, _ => a % b };
        e.check_eq(h.bias[i], want, &format!("{label}: bias {i} coefficient-wise"));
    }
}

pub fn c16_ops<E: Env>(e: &mut E, d: &[usize]) {
    // d = [m, n, op, variant]
    let (m, n, op, variant) = (d[0], d[1], d[2], d[3]);
    let f = fun(e, "f", m, n);
    let g = fun(e, "g", m, n);
    if op == 3 {
        for v in g.mat.iter().chain(g.bias.iter()) {
            // |v| >= 1/1024: divisors away from zero (a zero divisor gives non-finite coefficients: documented panic)
            let vv = *v * *v;
            let lo = e.k(1.0 / 1048576.0);
            e.assume_rel(vv, ">=", lo);
        }
    }
    let h: Fun<E::A> = match (op, variant) {
        (0, 0) => &f + &g,
        (0, 1) => f.clone() + g.clone(),
        (0, _) => f.clone() + &g,
        (1, 0) => &f - &g,
        (1, 1) => f.clone() - g.clone(),
        (1, _) => f.clone() - &g,
        (2, 0) => &f * &g,
        (2, 1) => f.clone() * g.clone(),
        (2, _) => f.clone() * &g,
        (3, 0) => &f / &g,
        (3, 1) => f.clone() / g.clone(),
        (3, _) => f.clone() / &g,
        (_, 0) => &f % &g,
        (_, 1) => f.clone() % g.clone(),
        (_, _) => f.clone() % &g,
    };
    let names = ["+", "-", "*", "/", "%"];
    coeffwise(e, &h, &f, &g, op, &format!("f {} g (variant {variant})", names[op]));
    if op <= 1 {
        let x = e.vec("x", n);
        let (fx, gx) = (f.apply(&x), g.apply(&x));
        let want = if op == 0 { &fx + &gx } else { &fx - &gx };
        check_vec_eq(e, &h.apply(&x), &want, "(f +- g)(x) = f(x) +- g(x)");
    }
}

pub fn c16_neg<E: Env>(e: &mut E, d: &[usize])
where
    for<'a> &'a E::A: Neg<Output = E::A>,
{
    let (m, n, variant) = (d[0], d[1], d[2]);
    let f = fun(e, "f", m, n);
    let x = e.vec("x", n);
    let h: Fun<E::A> = match variant {
        0 => -f.clone(),
        1 => -&f,
        _ => f.clone().negate(),
    };
    let fx = f.apply(&x);
    let want = fx.mapv(|v| -v);
    check_vec_eq(e, &h.apply(&x), &want, "(-f)(x) = -f(x)");
}

pub fn c16_rows<E: Env>(e: &mut E, d: &[usize]) {
    let (m, n) = (d[0], d[1]);
    let f = fun(e, "f", m, n);
    let x = e.vec("x", n);
    let fx = f.apply(&x);
    for i in 0..m {
        let r = f.row(i);
        let rx = r.apply(&x);
        e.check(rx.len() == 1, "row(i) has one output");
        e.check_eq(rx[0], fx[i], "row(i)(x) = f(x)_i");
    }
    let mut k = 0;
    for r in f.row_iter() {
        let rx = r.apply(&x);
        e.check_eq(rx[0], fx[k], "row_iter yields the rows in order");
        k += 1;
    }
    e.check(k == m, "row_iter yields every row");
    // from_row_iter rebuilds the same function
    let rows: Vec<_> = f.mat.axis_iter(ndarray::Axis(0)).zip(f.bias.iter()).collect();
    let g = Fun::<E::A>::from_row_iter(n, m, rows);
    check_vec_eq(e, &g.apply(&x), &fx, "from_row_iter(rows of f) = f");
    // view / to_owned / as_polytope / as_function / new
    let v = f.view();
    check_vec_eq(e, &v.apply(&x), &fx, "view() denotes the same function");
    check_vec_eq(e, &v.to_owned().apply(&x), &fx, "to_owned() denotes the same function");
    let p = f.as_polytope();
    check_mat_eq(e, &p.mat, &f.mat, "as_polytope keeps the matrix");
    check_vec_eq(e, &p.bias, &f.bias, "as_polytope keeps the bias");
    let b = p.as_function();
    check_vec_eq(e, &b.apply(&x), &fx, "as_function(as_polytope(f)) = f");
    let p2 = Poly::<E::A>::new(f.clone());
    check_mat_eq(e, &p2.mat, &f.mat, "Polytope::new keeps the matrix");
    check_vec_eq(e, &p2.bias, &f.bias, "Polytope::new keeps the bias");
}

pub fn c16_remove_rows_fn<E: Env>(e: &mut E, d: &[usize]) {
    let (m, n, mask) = (d[0], d[1], d[2]);
    let f = fun(e, "f", m, n);
    let x = e.vec("x", n);
    let remove: Vec<usize> = (0..m).filter(|i| (mask >> i) & 1 == 1).collect();
    let kept: Vec<usize> = (0..m).filter(|i| (mask >> i) & 1 == 0).collect();
    let g = f.remove_rows(remove);
    let fx = f.apply(&x);
    let want = Array1::from_iter(kept.iter().map(|i| fx[*i]));
    check_vec_eq(e, &g.apply(&x), &want, "remove_rows(f)(x) = kept components of f(x)");
}

pub fn c16_remove_zero<E: Env>(e: &mut E, d: &[usize]) {
    let (m, n) = (d[0], d[1]);
    let f = fun(e, "f", m, n);
    let x = e.vec("x", n);
    let fx = f.apply(&x);
    // remove_zero_rows: components that are identically zero go away, the others keep their order
    let g = f.remove_zero_rows();
    let mut kept = Vec::new();
    for i in 0..m {
        let mut nz = f.bias[i] != e.k(0.0);
        if !nz {
            for j in 0..n {
                if f.mat[[i, j]] != e.k(0.0) {
                    nz = true;
                    break;
                }
            }
        }
        if nz {
            kept.push(i);
        }
    }
    let want = Array1::from_iter(kept.iter().map(|i| fx[*i]));
    check_vec_eq(e, &g.apply(&x), &want, "remove_zero_rows(f)(x) = components of f(x) that are not identically zero");
    // remove_zero_columns: a function of the kept inputs only
    let mut cols = Vec::new();
    for j in 0..n {
        let mut nz = false;
        for i in 0..m {
            if f.mat[[i, j]] != e.k(0.0) {
                nz = true;
                break;
            }
        }
        if nz {
            cols.push(j);
        }
    }
    if !cols.is_empty() {
        let h = f.remove_zero_columns();
        let xr = Array1::from_iter(cols.iter().map(|j| x[*j]));
        check_vec_eq(e, &h.apply(&xr), &fx, "remove_zero_columns(f)(kept inputs) = f(x)");
    }
}

pub fn c16_convert_to<E: Env>(e: &mut E, d: &[usize]) {
    let (m, n, which) = (d[0], d[1], d[2]);
    let p = poly(e, "P", m, n);
    let x = e.vec("x", n);
    let repr = [PolyRepr::MatrixLeqBias, PolyRepr::MatrixBiasLeqZero, PolyRepr::MatrixGeqBias, PolyRepr::MatrixBiasGeqZero][which];
    let f = p.clone().convert_to(repr);
    let ax = matvec(&f.mat, &x);
    for i in 0..m {
        let row: Vec<E::A> = p.mat.row(i).iter().cloned().collect();
        let orig = dot(&row, &x) <= p.bias[i];
        let reading = match which {
            0 => ax[i] <= f.bias[i],
            1 => ax[i] + f.bias[i] <= e.k(0.0),
            2 => ax[i] >= f.bias[i],
            _ => ax[i] + f.bias[i] >= e.k(0.0),
        };
        e.check(orig == reading, "convert_to: the representation's reading denotes the same half-space");
    }
}

pub fn c16_ctor_basic<E: Env>(e: &mut E, d: &[usize]) {
    let n = d[0];
    let x = e.vec("x", n);
    let zero = e.k(0.0);
    check_vec_eq(e, &Fun::<E::A>::identity(n).apply(&x), &x, "identity(x) = x");
    check_vec_eq(e, &Fun::<E::A>::zeros(n).apply(&x), &Array1::from_elem(n, zero), "zeros(x) = 0");
    let v = e.real("v");
    check_vec_eq(e, &Fun::<E::A>::constant(n, v).apply(&x), &arr1(&[v]), "constant(v)(x) = v");
    let mut s = zero;
    for i in 0..n {
        s = s + x[i];
    }
    check_vec_eq(e, &Fun::<E::A>::sum(n).apply(&x), &arr1(&[s]), "sum(x) = x_0 + ... + x_{n-1}");
}

pub fn c16_ctor_index<E: Env>(e: &mut E, d: &[usize]) {
    let (n, i) = (d[0], d[1]);
    let x = e.vec("x", n);
    check_vec_eq(e, &Fun::<E::A>::unit(n, i).apply(&x), &arr1(&[x[i]]), "unit(i)(x) = x_i");
    let mut z = x.clone();
    z[i] = e.k(0.0);
    check_vec_eq(e, &Fun::<E::A>::zero_idx(n, i).apply(&x), &z, "zero_idx(i)(x) = x with component i set to 0");
}

pub fn c16_ctor_subtraction<E: Env>(e: &mut E, d: &[usize]) {
    let (n, i, j) = (d[0], d[1], d[2]);
    let x = e.vec("x", n);
    check_vec_eq(e, &Fun::<E::A>::subtraction(n, i, j).apply(&x), &arr1(&[x[i] - x[j]]), "subtraction(l, r)(x) = x_l - x_r");
}

pub fn c16_ctor_scaling<E: Env>(e: &mut E, d: &[usize]) {
    let n = d[0];
    let x = e.vec("x", n);
    let sc = e.vec("s", n);
    let want = Array1::from_iter((0..n).map(|i| sc[i] * x[i]));
    check_vec_eq(e, &Fun::<E::A>::scaling(&sc).apply(&x), &want, "scaling(s)(x) = s_i x_i");
    let u = e.real("u");
    check_vec_eq(e, &Fun::<E::A>::uniform_scaling(n, u).apply(&x), &x.mapv(|t| u * t), "uniform_scaling(u)(x) = u x");
    let r = e.mat("R", n, n);
    check_vec_eq(e, &Fun::<E::A>::rotation(r.clone()).apply(&x), &matvec(&r, &x), "rotation(R)(x) = R x");
}

pub fn c16_ctor_translation<E: Env>(e: &mut E, d: &[usize]) {
    let n = d[0];
    let x = e.vec("x", n);
    let off = e.vec("o", n);
    check_vec_eq(e, &Fun::<E::A>::translation(n, off.clone()).apply(&x), &(&x + &off), "translation(offset)(x) = x + offset");
}

pub fn c16_slice<E: Env>(e: &mut E, d: &[usize]) {
    let (n, pat) = (d[0], d[1]);
    let x = e.vec("x", n);
    let mut reference = Array1::from_elem(n, e.k(f64::NAN));
    let mut want = x.clone();
    for i in 0..n {
        if (pat >> i) & 1 == 1 {
            // fixed axis: symbolic value, plus the special value zero on the first fixed axis of odd patterns
            let v = if i == 0 { e.k(0.0) } else { e.real(&format!("ref_{i}")) };
            reference[i] = v;
            want[i] = v;
        }
    }
    check_vec_eq(e, &Fun::<E::A>::slice(&reference).apply(&x), &want, "slice(ref)(x) keeps NaN axes and fixes the others to ref");
}

pub fn c16_chebyshev_structure<E: Env>(e: &mut E, d: &[usize]) {
    // structure of the Chebyshev-centre program (the LP itself is refereed by C10)
    let (m, n) = (d[0], d[1]);
    let p = poly(e, "P", m, n);
    let (q, c) = p.chebyshev_center();
    e.check(q.n_constraints() == m + 1 && q.indim() == n + 1, "chebyshev program has one more row and one more column");
    for i in 0..m {
        for j in 0..n {
            e.check_eq(q.mat[[i, j]], p.mat[[i, j]], "chebyshev program keeps the rows");
        }
        e.check_eq(q.bias[i], p.bias[i], "chebyshev program keeps the biases");
        let mut sq = e.k(0.0);
        for j in 0..n {
            sq = sq + p.mat[[i, j]] * p.mat[[i, j]];
        }
        e.check_eq(q.mat[[i, n]] * q.mat[[i, n]], sq, "radius column holds the Euclidean norm of the row");
        e.check(q.mat[[i, n]] >= e.k(0.0), "radius column is non-negative");
    }
    for j in 0..n {
        e.check(q.mat[[m, j]] == e.k(0.0) && c[j] == e.k(0.0), "last row / objective do not involve the centre");
    }
    e.check(q.mat[[m, n]] == e.k(-1.0) && q.bias[m] == e.k(0.0) && c[n] == e.k(-1.0), "last row is -r <= 0, objective is -r");
}

// ------------------------------------------------------------------ canaries (must be refuted)

pub fn canary_translate_wrong_sign<E: Env>(e: &mut E, d: &[usize]) {
    let (m, n) = (d[0], d[1]);
    let p = poly(e, "P", m, n);
    let dir = e.vec("d", n);
    let x = e.vec("x", n);
    let t = p.translate(&dir);
    let xp = &x + &dir;
    e.check(t.contains(&x) == p.contains(&xp), "CANARY (wrong on purpose): x in P.translate(d) iff x+d in P");
}

pub fn canary_compose_wrong_order<E: Env>(e: &mut E, d: &[usize]) {
    let (p, m, n) = (d[0], d[1], d[2]);
    let f = fun(e, "f", p, m);
    let g = fun(e, "g", m, n);
    let x = e.vec("x", n);
    let h = f.compose(&g);
    check_vec_eq(e, &h.apply(&x), &g.apply(&f.apply(&x)), "CANARY (wrong on purpose): compose(f,g)(x) = g(f(x))");
}

pub fn canary_hypercube_wrong<E: Env>(e: &mut E, d: &[usize]) {
    let n = d[0];
    let r = e.real("r");
    let x = e.vec("x", n);
    let p = Poly::<E::A>::hypercube(n, r);
    let mut spec = true;
    for i in 0..n {
        if !(x[i] <= r + r && -x[i] <= r + r) {
            spec = false;
            break;
        }
    }
    e.check(p.contains(&x) == spec, "CANARY (wrong on purpose): x in hypercube(n, r) iff |x_i| <= 2r");
}

// Harness environment: the same harness code runs on the symbolic scalar (exploration) and on f64 (replay).

use std::collections::HashMap;
use std::fmt::Debug;
use std::iter::Sum;
use std::ops::DivAssign;

use approx::RelativeEq;
use ndarray::{Array1, Array2, LinalgScalar, ScalarOperand};
use num_traits::Float;

use crate::explore;
use crate::sym::Sym;

pub trait Scalar: Float + LinalgScalar + DivAssign + Sum + RelativeEq<Epsilon = Self> + ScalarOperand + Debug + 'static {}
impl Scalar for f64 {}
impl Scalar for Sym {}

pub trait Env {
    type A: Scalar;
    fn real(&mut self, name: &str) -> Self::A;
    fn assume(&mut self, b: bool);
    fn check(&mut self, b: bool, label: &str);
    fn k(&self, x: f64) -> Self::A;
    /// assumption a (op) b with op in "=", "<=", ">=", "<", ">" - not a fork
    fn assume_rel(&mut self, a: Self::A, op: &str, b: Self::A);
    /// property a = b - one solver query for a counterexample, not a fork
    fn check_eq(&mut self, a: Self::A, b: Self::A, label: &str);

    fn vec(&mut self, name: &str, n: usize) -> Array1<Self::A> {
        Array1::from_iter((0..n).map(|i| self.real(&format!("{}_{}", name, i))))
    }
    fn mat(&mut self, name: &str, m: usize, n: usize) -> Array2<Self::A> {
        let mut a = Array2::from_elem((m, n), self.k(0.0));
        for i in 0..m {
            for j in 0..n {
                a[[i, j]] = self.real(&format!("{}_{}_{}", name, i, j));
            }
        }
        a
    }
}

pub struct SymEnv;

impl Env for SymEnv {
    type A = Sym;
    fn real(&mut self, name: &str) -> Sym {
        explore::real(name)
    }
    fn assume(&mut self, b: bool) {
        explore::assume(b)
    }
    fn check(&mut self, b: bool, label: &str) {
        explore::check(b, label)
    }
    fn k(&self, x: f64) -> Sym {
        Sym::C(x)
    }
    fn assume_rel(&mut self, a: Sym, op: &str, b: Sym) {
        if let (Some(x), Some(y)) = (a.concrete(), b.concrete()) {
            explore::assume(rel(x, op, y));
        } else {
            explore::assume_term(format!("({} {} {})", op, a.smt(), b.smt()));
        }
    }
    fn check_eq(&mut self, a: Sym, b: Sym, label: &str) {
        if let (Some(x), Some(y)) = (a.concrete(), b.concrete()) {
            explore::check(x == y, label);
        } else if a.smt() == b.smt() {
            explore::check(true, label);
        } else {
            explore::check_term(format!("(= {} {})", a.smt(), b.smt()), label);
        }
    }
}

/// concrete replay of a counterexample model through the f64 instantiation
pub struct F64Env {
    pub values: HashMap<String, f64>,
    pub assumption_failed: bool,
    pub failed: Vec<String>,
    pub missing: Vec<String>,
}

impl Env for F64Env {
    type A = f64;
    fn real(&mut self, name: &str) -> f64 {
        match self.values.get(name) {
            Some(v) => *v,
            None => {
                self.missing.push(name.to_string());
                0.0
            }
        }
    }
    fn assume(&mut self, b: bool) {
        if !b {
            self.assumption_failed = true;
        }
    }
    fn check(&mut self, b: bool, label: &str) {
        if !b && !self.assumption_failed {
            self.failed.push(label.to_string());
        }
    }
    fn k(&self, x: f64) -> f64 {
        x
    }
    fn assume_rel(&mut self, a: f64, op: &str, b: f64) {
        // replayed models are rounded to f64: allow a rounding budget on assumptions
        let ok = match op {
            "=" => (a - b).abs() <= 1e-9 * (1.0 + a.abs().max(b.abs())),
            _ => rel(a, op, b) || (a - b).abs() <= 1e-9 * (1.0 + a.abs().max(b.abs())),
        };
        if !ok {
            self.assumption_failed = true;
        }
    }
    fn check_eq(&mut self, a: f64, b: f64, label: &str) {
        // a reproduced difference must exceed the rounding budget
        let ok = a == b || (a - b).abs() <= 1e-9 * (1.0 + a.abs().max(b.abs()));
        if !ok && !self.assumption_failed {
            self.failed.push(label.to_string());
        }
    }
}

fn rel(a: f64, op: &str, b: f64) -> bool {
    match op {
        "=" => a == b,
        "<=" => a <= b,
        ">=" => a >= b,
        "<" => a < b,
        ">" => a > b,
        _ => panic!("unknown relation {op}"),
    }
}

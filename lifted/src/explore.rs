// Path exploration by re-execution with a decision prefix; every branch is decided by z3 over a pipe.

use std::cell::RefCell;
use std::io::{BufRead, BufReader, Write};
use std::panic::{catch_unwind, AssertUnwindSafe};
use std::process::{Child, ChildStdin, Command, Stdio};
use std::sync::mpsc::{channel, Receiver};
use std::time::Instant;

use crate::sym::{self, Sym};

pub struct Solver {
    bin: String,
    timeout_ms: u64,
    child: Child,
    stdin: ChildStdin,
    rx: Receiver<String>,
    stack: Vec<Vec<String>>,
    pub queries: u64,
    pub sat: u64,
    pub unsat: u64,
    pub unknown: u64,
    pub restarts: u64,
    pub secs: f64,
    pub errors: Vec<String>,
    pub log: Option<Vec<String>>,
}

fn spawn(bin: &str) -> (Child, ChildStdin, Receiver<String>) {
    let mut child = Command::new(bin)
        .args(["-in", "-smt2"])
        .stdin(Stdio::piped())
        .stdout(Stdio::piped())
        .stderr(Stdio::null())
        .spawn()
        .expect("engine L: cannot start z3");
    let stdin = child.stdin.take().unwrap();
    let stdout = BufReader::new(child.stdout.take().unwrap());
    let (tx, rx) = channel();
    std::thread::spawn(move || {
        for line in stdout.lines() {
            match line {
                Ok(l) => {
                    if tx.send(l).is_err() {
                        break;
                    }
                }
                Err(_) => break,
            }
        }
    });
    (child, stdin, rx)
}

impl Solver {
    pub fn new(bin: &str, timeout_ms: u64) -> Solver {
        let (child, stdin, rx) = spawn(bin);
        let mut s = Solver { bin: bin.to_string(), timeout_ms, child, stdin, rx, stack: vec![vec![]], queries: 0, sat: 0, unsat: 0,
            unknown: 0, restarts: 0, secs: 0.0, errors: vec![], log: None };
        s.preamble();
        s
    }

    fn raw(&mut self, cmd: &str) {
        if let Ok(f) = std::env::var("VERIF_L_DUMP") {
            use std::io::Write as W2;
            if let Ok(mut fh) = std::fs::OpenOptions::new().create(true).append(true).open(f) {
                let _ = writeln!(fh, "{}", cmd);
            }
        }
        let _ = writeln!(self.stdin, "{}", cmd);
    }

    fn preamble(&mut self) {
        let t = self.timeout_ms;
        self.raw(&format!("(set-option :timeout {})", t));
        self.raw("(set-option :pp.decimal false)");
        self.raw("(set-logic ALL)");
        self.raw("(declare-fun frem (Real Real) Real)");
    }

    /// kill a solver that does not answer in time and rebuild its assertion stack in a fresh process
    fn restart(&mut self) {
        let _ = self.child.kill();
        let _ = self.child.wait();
        let (child, stdin, rx) = spawn(&self.bin);
        self.child = child;
        self.stdin = stdin;
        self.rx = rx;
        self.restarts += 1;
        self.preamble();
        let stack = self.stack.clone();
        for (lvl, cmds) in stack.iter().enumerate() {
            if lvl > 0 {
                self.raw("(push 1)");
            }
            for c in cmds {
                self.raw(c);
            }
        }
    }

    pub fn send(&mut self, cmd: &str) {
        if let Some(l) = self.log.as_mut() {
            l.push(cmd.to_string());
        }
        if cmd == "(push 1)" {
            self.stack.push(vec![]);
        } else if cmd == "(pop 1)" {
            self.stack.pop();
        } else if cmd.starts_with("(assert") || cmd.starts_with("(declare") {
            self.stack.last_mut().unwrap().push(cmd.to_string());
        }
        self.raw(cmd);
    }

    /// one answer (possibly spanning several lines); None if the solver does not answer before the deadline
    fn read_sexpr(&mut self, budget_ms: u64) -> Option<String> {
        let deadline = Instant::now() + std::time::Duration::from_millis(budget_ms);
        let mut out = String::new();
        let mut depth: i64 = 0;
        loop {
            let now = Instant::now();
            if now >= deadline {
                return None;
            }
            let line = match self.rx.recv_timeout(deadline - now) {
                Ok(l) => l,
                Err(_) => return None,
            };
            for ch in line.chars() {
                if ch == '(' {
                    depth += 1;
                } else if ch == ')' {
                    depth -= 1;
                }
            }
            out.push_str(line.trim());
            out.push(' ');
            if depth <= 0 && !out.trim().is_empty() {
                break;
            }
        }
        let out = out.trim().to_string();
        if out.starts_with("(error") {
            self.errors.push(out.clone());
        }
        Some(out)
    }

    pub fn check(&mut self) -> &'static str {
        let t0 = Instant::now();
        self.raw("(check-sat)");
        let _ = self.stdin.flush();
        let budget = self.timeout_ms + 3000;
        let mut r = self.read_sexpr(budget);
        while matches!(&r, Some(x) if x.starts_with("(error")) {
            r = self.read_sexpr(budget);
        }
        self.secs += t0.elapsed().as_secs_f64();
        self.queries += 1;
        match r.as_deref() {
            Some("sat") => {
                self.sat += 1;
                "sat"
            }
            Some("unsat") => {
                self.unsat += 1;
                "unsat"
            }
            Some(_) => {
                self.unknown += 1;
                "unknown"
            }
            None => {
                // the soft timeout was not honoured: kill and rebuild
                self.unknown += 1;
                self.restart();
                "unknown"
            }
        }
    }

    pub fn check_with(&mut self, extra: &str) -> &'static str {
        self.send("(push 1)");
        self.send(&format!("(assert {})", extra));
        let r = self.check();
        self.send("(pop 1)");
        r
    }

    pub fn get_values(&mut self, names: &[String]) -> String {
        if names.is_empty() {
            return "()".to_string();
        }
        self.raw(&format!("(get-value ({}))", names.join(" ")));
        let _ = self.stdin.flush();
        self.read_sexpr(5000).unwrap_or_else(|| "<no model>".to_string())
    }
}

impl Drop for Solver {
    fn drop(&mut self) {
        let _ = writeln!(self.stdin, "(exit)");
        let _ = self.child.kill();
        let _ = self.child.wait();
    }
}

#[derive(Clone, Debug)]
pub enum PathEnd {
    Ok,
    Violation { label: String, model: String },
    Panic(String),
    Assumed,     // an assumption of the harness is false on this path
    DivZero(String),
    Undecided(String),
}

struct PathAbort(PathEnd);

pub struct Ctx {
    pub solver: Solver,
    prefix: Vec<bool>,
    decisions: Vec<bool>,
    pending: Vec<Vec<bool>>,
    vars: Vec<String>,
    fresh: u32,
    pub sqrt_exact: bool,
    pub allow_div_zero: bool,
    pub lazy: bool,
    timeout_ms: u64,
    checks_passed: u64,
    undecided_branch: Option<String>,
}

thread_local! {
    static CTX: RefCell<Option<Ctx>> = RefCell::new(None);
}

fn with_ctx<R>(f: impl FnOnce(&mut Ctx) -> R) -> R {
    CTX.with(|c| f(c.borrow_mut().as_mut().expect("engine L: symbolic operation outside an exploration")))
}

/// two-way fork on an SMT boolean term
pub fn decide(cond: String) -> bool {
    with_ctx(|c| {
        let i = c.decisions.len();
        let take = if i < c.prefix.len() {
            c.prefix[i]
        } else if c.lazy {
            // lazy mode: no feasibility query at the branch; both sides are explored and a path is only
            // checked for feasibility when it ends in a failed check, a panic or a division by zero
            let mut alt = c.decisions.clone();
            alt.push(false);
            c.pending.push(alt);
            true
        } else {
            let st = c.solver.check_with(&cond);
            let sf = c.solver.check_with(&format!("(not {})", cond));
            match (st, sf) {
                ("sat", "sat") => {
                    let mut alt = c.decisions.clone();
                    alt.push(false);
                    c.pending.push(alt);
                    true
                }
                ("sat", "unsat") => true,
                ("unsat", "sat") => false,
                ("unsat", "unsat") => {
                    // path condition itself became unsatisfiable (can only happen through an earlier 'unknown')
                    std::panic::panic_any(PathAbort(PathEnd::Assumed));
                }
                _ => {
                    c.undecided_branch = Some(cond.clone());
                    // explore the side(s) not refuted
                    if st != "unsat" && sf != "unsat" {
                        let mut alt = c.decisions.clone();
                        alt.push(false);
                        c.pending.push(alt);
                        true
                    } else {
                        st != "unsat"
                    }
                }
            }
        };
        c.decisions.push(take);
        let lit = if take { cond } else { format!("(not {})", cond) };
        c.solver.send(&format!("(assert {})", lit));
        take
    })
}

pub fn real(name: &str) -> Sym {
    with_ctx(|c| {
        if !c.vars.iter().any(|v| v == name) {
            c.vars.push(name.to_string());
            c.solver.send(&format!("(declare-const {} Real)", name));
        }
    });
    sym::var(name)
}

pub fn sqrt_witness(arg: String) -> Sym {
    let name = with_ctx(|c| {
        c.fresh += 1;
        let name = format!("sq{}", c.fresh);
        c.vars.push(name.clone());
        c.solver.send(&format!("(declare-const {} Real)", name));
        c.solver.send(&format!("(assert (>= {} 0.0))", name));
        if c.sqrt_exact {
            c.solver.send(&format!("(assert (= (* {} {}) {}))", name, name, arg));
        } else {
            // positive-scaling abstraction: s >= 0 and (s = 0 <=> arg = 0); sound for properties invariant under positive scaling
            c.solver.send(&format!("(assert (= (= {} 0.0) (= {} 0.0)))", name, arg));
            c.solver.send(&format!("(assert (>= {} 0.0))", arg));
        }
        name
    });
    sym::var(&name)
}

pub fn note_division(divisor: String) {
    let zero = decide(format!("(= {} 0.0)", divisor));
    if zero {
        let allow = with_ctx(|c| c.allow_div_zero);
        if !allow {
            std::panic::panic_any(PathAbort(PathEnd::DivZero(divisor)));
        } else {
            std::panic::panic_any(PathAbort(PathEnd::Assumed));
        }
    }
}

/// model of the current (satisfiable) assertions, preferably on the dyadic grid k/64 so that it survives rounding to f64
fn grid_model(c: &mut Ctx) -> String {
    let names = c.vars.clone();
    c.solver.send("(push 1)");
    for (i, n) in names.iter().enumerate() {
        if n.starts_with("sq") {
            continue;
        }
        c.solver.send(&format!("(declare-const gk{} Int)", i));
        c.solver.send(&format!("(assert (= {} (/ (to_real gk{}) 64.0)))", n, i));
        c.solver.send(&format!("(assert (and (<= (- 65536) gk{}) (<= gk{} 65536)))", i, i));
    }
    c.solver.send("(set-option :timeout 3000)");
    let r = c.solver.check();
    let out = if r == "sat" { Some(c.solver.get_values(&names)) } else { None };
    c.solver.send("(pop 1)");
    let t = c.timeout_ms;
    c.solver.send(&format!("(set-option :timeout {})", t));
    match out {
        Some(m) => m,
        None => {
            let r2 = c.solver.check();
            if r2 == "sat" {
                c.solver.get_values(&names)
            } else {
                format!("<{}>", r2)
            }
        }
    }
}

/// harness-side API
pub fn assume(b: bool) {
    if !b {
        std::panic::panic_any(PathAbort(PathEnd::Assumed));
    }
}

/// assumption given directly as a term: asserted without forking
pub fn assume_term(cond: String) {
    with_ctx(|c| c.solver.send(&format!("(assert {})", cond)));
}

/// property given directly as a term: one query for a counterexample, no fork
pub fn check_term(cond: String, label: &str) {
    let (r, model) = with_ctx(|c| {
        c.solver.send("(push 1)");
        c.solver.send(&format!("(assert (not {}))", cond));
        let r = c.solver.check();
        let model = if r == "sat" { grid_model(c) } else { String::new() };
        c.solver.send("(pop 1)");
        (r, model)
    });
    match r {
        "unsat" => with_ctx(|c| c.checks_passed += 1),
        "sat" => std::panic::panic_any(PathAbort(PathEnd::Violation { label: label.to_string(), model })),
        _ => {
            with_ctx(|c| c.undecided_branch = Some(format!("check: {}", label)));
        }
    }
}

pub fn check(b: bool, label: &str) {
    if b {
        with_ctx(|c| c.checks_passed += 1);
        return;
    }
    let (r, model) = with_ctx(|c| {
        let r = c.solver.check();
        if r == "sat" {
            (r, grid_model(c))
        } else {
            (r, format!("<{}>", r))
        }
    });
    if r == "unsat" {
        // the path condition is infeasible (only possible in lazy mode or after an assumption): nothing to report
        std::panic::panic_any(PathAbort(PathEnd::Assumed));
    }
    if r == "unknown" {
        std::panic::panic_any(PathAbort(PathEnd::Undecided(format!("feasibility of a path that fails: {}", label))));
    }
    std::panic::panic_any(PathAbort(PathEnd::Violation { label: label.to_string(), model }));
}

pub struct Report {
    pub paths: u64,
    pub ok: u64,
    pub assumed: u64,
    pub checks_passed: u64,
    pub violations: Vec<(String, String, Vec<bool>)>,
    pub panics: Vec<(String, Vec<bool>)>,
    pub divzero: Vec<String>,
    pub undecided: Vec<String>,
    pub queries: u64,
    pub sat: u64,
    pub unsat: u64,
    pub unknown: u64,
    pub solver_s: f64,
    pub solver_errors: Vec<String>,
    pub path_cap_hit: bool,
    pub sample_query: Vec<String>,
}

pub struct Options {
    pub z3: String,
    pub timeout_ms: u64,
    pub path_cap: u64,
    pub sqrt_exact: bool,
    pub allow_div_zero: bool,
    pub lazy: bool,
}

pub fn explore(opts: &Options, harness: &dyn Fn()) -> Report {
    let mut solver = Solver::new(&opts.z3, opts.timeout_ms);
    solver.log = Some(Vec::new());
    CTX.with(|c| {
        *c.borrow_mut() = Some(Ctx {
            solver,
            prefix: vec![],
            decisions: vec![],
            pending: vec![vec![]],
            vars: vec![],
            fresh: 0,
            sqrt_exact: opts.sqrt_exact,
            allow_div_zero: opts.allow_div_zero,
            lazy: opts.lazy,
            timeout_ms: opts.timeout_ms,
            checks_passed: 0,
            undecided_branch: None,
        })
    });
    let mut rep = Report { paths: 0, ok: 0, assumed: 0, checks_passed: 0, violations: vec![], panics: vec![], divzero: vec![],
        undecided: vec![], queries: 0, sat: 0, unsat: 0, unknown: 0, solver_s: 0.0, solver_errors: vec![], path_cap_hit: false,
        sample_query: vec![] };
    loop {
        let next = with_ctx(|c| c.pending.pop());
        let prefix = match next {
            Some(p) => p,
            None => break,
        };
        if rep.paths >= opts.path_cap {
            rep.path_cap_hit = true;
            break;
        }
        rep.paths += 1;
        with_ctx(|c| {
            c.prefix = prefix.clone();
            c.decisions.clear();
            c.vars.clear();
            c.fresh = 0;
            c.undecided_branch = None;
            c.solver.send("(push 1)");
        });
        sym::reset_terms();
        let r = catch_unwind(AssertUnwindSafe(|| harness()));
        let end = match r {
            Ok(()) => PathEnd::Ok,
            Err(e) => match e.downcast::<PathAbort>() {
                Ok(pa) => pa.0,
                Err(e) => {
                    let msg = if let Some(s) = e.downcast_ref::<&str>() {
                        s.to_string()
                    } else if let Some(s) = e.downcast_ref::<String>() {
                        s.clone()
                    } else {
                        "<panic>".to_string()
                    };
                    PathEnd::Panic(msg)
                }
            },
        };
        let end = match end {
            PathEnd::Panic(_) | PathEnd::DivZero(_) if opts.lazy => {
                let r = with_ctx(|c| c.solver.check());
                match r {
                    "unsat" => PathEnd::Assumed,
                    "sat" => end,
                    _ => PathEnd::Undecided("feasibility of a panicking path".to_string()),
                }
            }
            other => other,
        };
        let (decs, und) = with_ctx(|c| {
            c.solver.send("(pop 1)");
            (c.decisions.clone(), c.undecided_branch.take())
        });
        if let Some(u) = und {
            rep.undecided.push(u);
        }
        match end {
            PathEnd::Ok => rep.ok += 1,
            PathEnd::Assumed => rep.assumed += 1,
            PathEnd::Violation { label, model } => rep.violations.push((label, model, decs)),
            PathEnd::Panic(m) => rep.panics.push((m, decs)),
            PathEnd::DivZero(d) => rep.divzero.push(d),
            PathEnd::Undecided(u) => rep.undecided.push(u),
        }
        if rep.paths == 1 {
            // keep the first path's solver dialogue as a sample
            rep.sample_query = with_ctx(|c| c.solver.log.as_ref().map(|l| l.iter().take(40).cloned().collect()).unwrap_or_default());
            with_ctx(|c| c.solver.log = None);
        }
    }
    let ctx = CTX.with(|c| c.borrow_mut().take().unwrap());
    rep.checks_passed = ctx.checks_passed;
    rep.queries = ctx.solver.queries;
    rep.sat = ctx.solver.sat;
    rep.unsat = ctx.solver.unsat;
    rep.unknown = ctx.solver.unknown;
    rep.solver_s = ctx.solver.secs;
    rep.solver_errors = ctx.solver.errors.clone();
    rep
}

// Engine L: a scalar type that is either a concrete f64 or a symbolic real (an SMT-LIB term).
// The real generic functions of affinitree's linalg layer are monomorphised at this type; every
// comparison on a symbolic value is a fork decided by the solver (see explore.rs).

use std::cell::RefCell;
use std::fmt;
use std::iter::Sum;
use std::num::FpCategory;
use std::ops::{Add, AddAssign, Div, DivAssign, Mul, MulAssign, Neg, Rem, RemAssign, Sub, SubAssign};

use approx::{AbsDiffEq, RelativeEq};
use num_traits::{Float, Num, NumCast, One, ToPrimitive, Zero};

use crate::explore;

#[derive(Clone, Copy)]
pub enum Sym {
    C(f64),
    T(u32),
}

thread_local! {
    static TERMS: RefCell<Vec<String>> = RefCell::new(Vec::new());
}

pub fn reset_terms() {
    TERMS.with(|t| t.borrow_mut().clear());
}

fn mk(s: String) -> Sym {
    TERMS.with(|t| {
        let mut t = t.borrow_mut();
        t.push(s);
        Sym::T((t.len() - 1) as u32)
    })
}

pub fn var(name: &str) -> Sym {
    mk(name.to_string())
}

/// exact rational of a finite f64 as an SMT-LIB real term
pub fn smt_const(x: f64) -> String {
    assert!(x.is_finite(), "engine L: non-finite constant {x} meets a symbolic value");
    if x == 0.0 {
        return "0.0".to_string();
    }
    let bits = x.to_bits();
    let sign = (bits >> 63) != 0;
    let exp = ((bits >> 52) & 0x7ff) as i64;
    let frac = bits & 0xfffffffffffff;
    let (mut m, mut e) = if exp == 0 { (frac, -1074i64) } else { (frac | (1u64 << 52), exp - 1075) };
    while m % 2 == 0 {
        m /= 2;
        e += 1;
    }
    let body = if e >= 0 {
        assert!(e <= 60, "engine L: constant {x} too large");
        format!("{}.0", (m as u128) << e)
    } else {
        assert!(-e <= 126, "engine L: constant {x} too small");
        format!("(/ {}.0 {}.0)", m, 1u128 << (-e))
    };
    if sign {
        format!("(- {})", body)
    } else {
        body
    }
}

impl Sym {
    pub fn smt(&self) -> String {
        match self {
            Sym::C(x) => smt_const(*x),
            Sym::T(i) => TERMS.with(|t| t.borrow()[*i as usize].clone()),
        }
    }

    pub fn is_symbolic(&self) -> bool {
        matches!(self, Sym::T(_))
    }

    pub fn concrete(&self) -> Option<f64> {
        match self {
            Sym::C(x) => Some(*x),
            _ => None,
        }
    }

    fn bin(self, o: Sym, op: &str, f: fn(f64, f64) -> f64) -> Sym {
        match (self, o) {
            (Sym::C(a), Sym::C(b)) => Sym::C(f(a, b)),
            _ => mk(format!("({} {} {})", op, self.smt(), o.smt())),
        }
    }

    fn cmp(self, o: Sym, op: &str, f: fn(&f64, &f64) -> bool) -> bool {
        match (self, o) {
            (Sym::C(a), Sym::C(b)) => f(&a, &b),
            (Sym::C(a), Sym::T(_)) if a.is_infinite() => {
                // concrete infinity against a symbolic (finite) real
                let neg = a < 0.0;
                match op {
                    "<" | "<=" => neg,
                    ">" | ">=" => !neg,
                    _ => false,
                }
            }
            (Sym::T(_), Sym::C(b)) if b.is_infinite() => {
                let neg = b < 0.0;
                match op {
                    "<" | "<=" => !neg,
                    ">" | ">=" => neg,
                    _ => false,
                }
            }
            _ => {
                let (l, r) = (self.smt(), o.smt());
                if l == r {
                    // syntactically identical terms: no fork needed
                    return matches!(op, "=" | "<=" | ">=");
                }
                explore::decide(format!("({} {} {})", op, l, r))
            }
        }
    }
}

impl fmt::Debug for Sym {
    fn fmt(&self, f: &mut fmt::Formatter<'_>) -> fmt::Result {
        match self {
            Sym::C(x) => write!(f, "{:?}", x),
            Sym::T(_) => write!(f, "{}", self.smt()),
        }
    }
}

impl fmt::Display for Sym {
    fn fmt(&self, f: &mut fmt::Formatter<'_>) -> fmt::Result {
        fmt::Debug::fmt(self, f)
    }
}

impl PartialEq for Sym {
    fn eq(&self, o: &Sym) -> bool {
        self.cmp(*o, "=", f64::eq)
    }
}

impl PartialOrd for Sym {
    fn partial_cmp(&self, o: &Sym) -> Option<std::cmp::Ordering> {
        match (self, o) {
            (Sym::C(a), Sym::C(b)) => a.partial_cmp(b),
            _ => {
                if self.lt(o) {
                    Some(std::cmp::Ordering::Less)
                } else if self.gt(o) {
                    Some(std::cmp::Ordering::Greater)
                } else {
                    Some(std::cmp::Ordering::Equal)
                }
            }
        }
    }
    fn lt(&self, o: &Sym) -> bool {
        self.cmp(*o, "<", f64::lt)
    }
    fn le(&self, o: &Sym) -> bool {
        self.cmp(*o, "<=", f64::le)
    }
    fn gt(&self, o: &Sym) -> bool {
        self.cmp(*o, ">", f64::gt)
    }
    fn ge(&self, o: &Sym) -> bool {
        self.cmp(*o, ">=", f64::ge)
    }
}

impl Add for Sym {
    type Output = Sym;
    fn add(self, o: Sym) -> Sym {
        match (self, o) {
            (Sym::C(a), _) if a == 0.0 && o.is_symbolic() => o,
            (_, Sym::C(b)) if b == 0.0 && self.is_symbolic() => self,
            _ => self.bin(o, "+", |a, b| a + b),
        }
    }
}
impl Sub for Sym {
    type Output = Sym;
    fn sub(self, o: Sym) -> Sym {
        match (self, o) {
            (_, Sym::C(b)) if b == 0.0 && self.is_symbolic() => self,
            _ => self.bin(o, "-", |a, b| a - b),
        }
    }
}
impl Mul for Sym {
    type Output = Sym;
    fn mul(self, o: Sym) -> Sym {
        match (self, o) {
            (Sym::C(a), _) if a == 0.0 && o.is_symbolic() => Sym::C(0.0),
            (_, Sym::C(b)) if b == 0.0 && self.is_symbolic() => Sym::C(0.0),
            (Sym::C(a), _) if a == 1.0 && o.is_symbolic() => o,
            (_, Sym::C(b)) if b == 1.0 && self.is_symbolic() => self,
            _ => self.bin(o, "*", |a, b| a * b),
        }
    }
}
impl Div for Sym {
    type Output = Sym;
    fn div(self, o: Sym) -> Sym {
        match (self, o) {
            (_, Sym::C(b)) if b == 1.0 && self.is_symbolic() => self,
            (Sym::C(a), Sym::C(b)) => Sym::C(a / b),
            _ => {
                // division by a symbolic value: the path must exclude a zero divisor
                if o.is_symbolic() {
                    explore::note_division(o.smt());
                }
                mk(format!("(/ {} {})", self.smt(), o.smt()))
            }
        }
    }
}
impl Rem for Sym {
    type Output = Sym;
    fn rem(self, o: Sym) -> Sym {
        match (self, o) {
            (Sym::C(a), Sym::C(b)) => Sym::C(a % b),
            // f64 remainder has no real-arithmetic counterpart: an uninterpreted function of its operands
            _ => mk(format!("(frem {} {})", self.smt(), o.smt())),
        }
    }
}
impl Neg for Sym {
    type Output = Sym;
    fn neg(self) -> Sym {
        match self {
            Sym::C(a) => Sym::C(-a),
            _ => mk(format!("(- {})", self.smt())),
        }
    }
}
impl Neg for &Sym {
    type Output = Sym;
    fn neg(self) -> Sym {
        -*self
    }
}
impl AddAssign for Sym {
    fn add_assign(&mut self, o: Sym) {
        *self = *self + o;
    }
}
impl SubAssign for Sym {
    fn sub_assign(&mut self, o: Sym) {
        *self = *self - o;
    }
}
impl MulAssign for Sym {
    fn mul_assign(&mut self, o: Sym) {
        *self = *self * o;
    }
}
impl DivAssign for Sym {
    fn div_assign(&mut self, o: Sym) {
        *self = *self / o;
    }
}
impl RemAssign for Sym {
    fn rem_assign(&mut self, o: Sym) {
        *self = *self % o;
    }
}
impl Sum for Sym {
    fn sum<I: Iterator<Item = Sym>>(iter: I) -> Sym {
        iter.fold(Sym::C(0.0), |a, b| a + b)
    }
}
impl<'a> Sum<&'a Sym> for Sym {
    fn sum<I: Iterator<Item = &'a Sym>>(iter: I) -> Sym {
        iter.fold(Sym::C(0.0), |a, b| a + *b)
    }
}
impl Zero for Sym {
    fn zero() -> Sym {
        Sym::C(0.0)
    }
    fn is_zero(&self) -> bool {
        *self == Sym::C(0.0)
    }
}
impl One for Sym {
    fn one() -> Sym {
        Sym::C(1.0)
    }
}
impl Num for Sym {
    type FromStrRadixErr = num_traits::ParseFloatError;
    fn from_str_radix(s: &str, r: u32) -> Result<Sym, Self::FromStrRadixErr> {
        f64::from_str_radix(s, r).map(Sym::C)
    }
}
impl ToPrimitive for Sym {
    fn to_i64(&self) -> Option<i64> {
        self.concrete().and_then(|x| x.to_i64())
    }
    fn to_u64(&self) -> Option<u64> {
        self.concrete().and_then(|x| x.to_u64())
    }
    fn to_f64(&self) -> Option<f64> {
        self.concrete()
    }
}
impl NumCast for Sym {
    fn from<T: ToPrimitive>(n: T) -> Option<Sym> {
        n.to_f64().map(Sym::C)
    }
}
impl ndarray::ScalarOperand for Sym {}

macro_rules! unsupported {
    ($($name:ident),*) => { $( fn $name(self) -> Sym { match self { Sym::C(x) => Sym::C(x.$name()), _ => panic!(concat!("engine L: ", stringify!($name), " on a symbolic value")) } } )* };
}

impl Float for Sym {
    fn nan() -> Sym {
        Sym::C(f64::NAN)
    }
    fn infinity() -> Sym {
        Sym::C(f64::INFINITY)
    }
    fn neg_infinity() -> Sym {
        Sym::C(f64::NEG_INFINITY)
    }
    fn neg_zero() -> Sym {
        Sym::C(-0.0)
    }
    fn min_value() -> Sym {
        Sym::C(f64::MIN)
    }
    fn min_positive_value() -> Sym {
        Sym::C(f64::MIN_POSITIVE)
    }
    fn max_value() -> Sym {
        Sym::C(f64::MAX)
    }
    fn epsilon() -> Sym {
        Sym::C(f64::EPSILON)
    }
    fn is_nan(self) -> bool {
        self.concrete().map(|x| x.is_nan()).unwrap_or(false)
    }
    fn is_infinite(self) -> bool {
        self.concrete().map(|x| x.is_infinite()).unwrap_or(false)
    }
    fn is_finite(self) -> bool {
        self.concrete().map(|x| x.is_finite()).unwrap_or(true)
    }
    fn is_normal(self) -> bool {
        // a symbolic real stands for a normal float or zero; from_mats' debug assertion accepts both
        self.concrete().map(|x| x.is_normal()).unwrap_or(true)
    }
    fn classify(self) -> FpCategory {
        self.concrete().map(|x| x.classify()).unwrap_or(FpCategory::Normal)
    }
    unsupported!(floor, ceil, round, trunc, fract, exp, exp2, ln, log2, log10, cbrt, sin, cos, tan, asin, acos, atan, exp_m1, ln_1p, sinh, cosh, tanh, asinh, acosh, atanh);
    fn abs(self) -> Sym {
        match self {
            Sym::C(x) => Sym::C(x.abs()),
            _ => {
                if self >= Sym::C(0.0) {
                    self
                } else {
                    -self
                }
            }
        }
    }
    fn signum(self) -> Sym {
        match self {
            Sym::C(x) => Sym::C(x.signum()),
            _ => {
                if self >= Sym::C(0.0) {
                    Sym::C(1.0)
                } else {
                    Sym::C(-1.0)
                }
            }
        }
    }
    fn is_sign_positive(self) -> bool {
        match self {
            Sym::C(x) => x.is_sign_positive(),
            _ => self >= Sym::C(0.0),
        }
    }
    fn is_sign_negative(self) -> bool {
        match self {
            Sym::C(x) => x.is_sign_negative(),
            _ => self < Sym::C(0.0),
        }
    }
    fn mul_add(self, a: Sym, b: Sym) -> Sym {
        match (self, a, b) {
            (Sym::C(x), Sym::C(y), Sym::C(z)) => Sym::C(x.mul_add(y, z)),
            _ => self * a + b,
        }
    }
    fn recip(self) -> Sym {
        Sym::C(1.0) / self
    }
    fn powi(self, n: i32) -> Sym {
        match self {
            Sym::C(x) => Sym::C(x.powi(n)),
            _ => {
                assert!(n >= 0, "engine L: negative power of a symbolic value");
                let mut r = Sym::C(1.0);
                for _ in 0..n {
                    r = r * self;
                }
                r
            }
        }
    }
    fn powf(self, n: Sym) -> Sym {
        match (self, n) {
            (Sym::C(x), Sym::C(y)) => Sym::C(x.powf(y)),
            _ => panic!("engine L: powf on a symbolic value"),
        }
    }
    fn sqrt(self) -> Sym {
        match self {
            Sym::C(x) => Sym::C(x.sqrt()),
            _ => explore::sqrt_witness(self.smt()),
        }
    }
    fn log(self, b: Sym) -> Sym {
        match (self, b) {
            (Sym::C(x), Sym::C(y)) => Sym::C(x.log(y)),
            _ => panic!("engine L: log on a symbolic value"),
        }
    }
    fn max(self, o: Sym) -> Sym {
        match (self, o) {
            (Sym::C(a), Sym::C(b)) => Sym::C(a.max(b)),
            _ => {
                if self >= o {
                    self
                } else {
                    o
                }
            }
        }
    }
    fn min(self, o: Sym) -> Sym {
        match (self, o) {
            (Sym::C(a), Sym::C(b)) => Sym::C(a.min(b)),
            _ => {
                if self <= o {
                    self
                } else {
                    o
                }
            }
        }
    }
    fn abs_sub(self, o: Sym) -> Sym {
        let d = self - o;
        if d >= Sym::C(0.0) {
            d
        } else {
            Sym::C(0.0)
        }
    }
    fn hypot(self, o: Sym) -> Sym {
        (self * self + o * o).sqrt()
    }
    fn atan2(self, o: Sym) -> Sym {
        match (self, o) {
            (Sym::C(x), Sym::C(y)) => Sym::C(x.atan2(y)),
            _ => panic!("engine L: atan2 on a symbolic value"),
        }
    }
    fn sin_cos(self) -> (Sym, Sym) {
        match self {
            Sym::C(x) => (Sym::C(x.sin()), Sym::C(x.cos())),
            _ => panic!("engine L: sin_cos on a symbolic value"),
        }
    }
    fn integer_decode(self) -> (u64, i16, i8) {
        match self {
            Sym::C(x) => x.integer_decode(),
            _ => panic!("engine L: integer_decode on a symbolic value"),
        }
    }
}

impl AbsDiffEq for Sym {
    type Epsilon = Sym;
    fn default_epsilon() -> Sym {
        Sym::C(f64::EPSILON)
    }
    fn abs_diff_eq(&self, o: &Sym, eps: Sym) -> bool {
        let d = if *self > *o { *self - *o } else { *o - *self };
        d <= eps
    }
}

impl RelativeEq for Sym {
    fn default_max_relative() -> Sym {
        Sym::C(f64::EPSILON)
    }
    // approx's algorithm for floats, written over Sym (listed as an assumption of engine L)
    fn relative_eq(&self, o: &Sym, eps: Sym, max_relative: Sym) -> bool {
        if self == o {
            return true;
        }
        if Float::is_infinite(*self) || Float::is_infinite(*o) {
            return false;
        }
        let abs_diff = Float::abs(*self - *o);
        if abs_diff <= eps {
            return true;
        }
        let abs_self = Float::abs(*self);
        let abs_other = Float::abs(*o);
        let largest = if abs_other > abs_self { abs_other } else { abs_self };
        abs_diff <= largest * max_relative
    }
}

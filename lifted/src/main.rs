// Engine L runner: lifted <quick|thorough> <C14,C15,C16> <out.json>
// Executes every harness instance of the requested properties on the symbolic scalar (path-exhaustive, z3 on every
// branch), replays counterexample models through the f64 instantiation, and writes a JSON report.

mod env;
mod explore;
mod harness;
mod sym;

use std::collections::HashMap;
use std::sync::atomic::{AtomicUsize, Ordering};
use std::sync::Mutex;
use std::time::Instant;

use env::{F64Env, SymEnv};
use serde_json::{json, Value};

struct Inst {
    name: &'static str,
    prop: &'static str,
    d: Vec<usize>,
    sqrt_exact: bool,
    allow_div_zero: bool,
    lazy: bool,
    sym: fn(&mut SymEnv, &[usize]),
    f64: fn(&mut F64Env, &[usize]),
    functions: &'static str,
}

macro_rules! reg {
    ($list:expr, $prop:expr, $f:ident, $functions:expr, $sq:expr, $dz:expr, [$($d:expr),* $(,)?]) => {
        $( $list.push(Inst { name: stringify!($f), prop: $prop, d: $d.to_vec(), sqrt_exact: $sq, allow_div_zero: $dz,
                             lazy: matches!(stringify!($f), "c14_apply_post" | "c14_rotate" | "c15_normalize"),
                             sym: harness::$f::<SymEnv>, f64: harness::$f::<F64Env>, functions: $functions }); )*
    };
}

fn instances(thorough: bool) -> Vec<Inst> {
    let mut l: Vec<Inst> = Vec::new();
    let t = thorough;
    // ---------------- canaries: deliberately wrong laws that the machinery must refute
    reg!(l, "CANARY", canary_translate_wrong_sign, "translate", false, false, [[2, 2]]);
    reg!(l, "CANARY", canary_compose_wrong_order, "compose", false, false, [[2, 2, 2]]);
    reg!(l, "CANARY", canary_hypercube_wrong, "hypercube", false, false, [[2]]);
    // ---------------- C14
    reg!(l, "C14", c14_intersection, "intersection, contains", false, false, [[1, 1, 1], [2, 1, 2], [2, 2, 2]]);
    reg!(l, "C14", c14_intersection_n, "intersection_n, unbounded, contains", false, false, [[0, 1, 2], [1, 1, 1], [2, 1, 2], [3, 1, 2]]);
    reg!(l, "C14", c14_translate, "translate, contains", false, false, [[1, 1], [2, 2], [3, 2]]);
    reg!(l, "C14", c14_apply_pre, "apply_pre, apply, contains", false, false, [[1, 1, 1], [2, 2, 2], [2, 2, 1]]);
    reg!(l, "C14", c14_apply_post, "apply_post, contains", false, false, [[1, 1], [2, 2], [1, 2]]);
    reg!(l, "C14", c14_rotate, "rotate, apply_post, contains", false, false, [[1, 1], [2, 2], [1, 2]]);
    reg!(l, "C14", c14_rotate_image, "rotate, apply_post, contains", false, false, [[1, 1], [2, 2], [2, 3]]);
    for which in 0..4usize {
        reg!(l, "C14", c14_apply_post_image, "apply_post, contains", false, false, [[1, 1, which], [2, 2, which], [2, 3, which]]);
    }
    reg!(l, "C14", c14_hypercube, "hypercube, contains", false, false, [[1], [2], [3]]);
    reg!(l, "C14", c14_unbounded_empty, "unbounded, empty, contains", false, false, [[1], [2], [3]]);
    reg!(l, "C14", c14_cross_polytope, "cross_polytope, contains", false, false, [[1], [2], [3]]);
    reg!(l, "C14", c14_from_normal, "from_normal, contains", false, false, [[1, 1], [2, 2], [3, 2]]);
    reg!(l, "C14", c14_simplex, "simplex, distance_raw, contains", false, false, [[1], [2], [3], [4]]);
    reg!(l, "C14", c14_distance, "distance, distance_raw", false, false, [[1, 1], [2, 2], [3, 2]]);
    reg!(l, "C14", c14_distance_norm, "distance, distance_raw", true, false, [[1], [2]]);
    reg!(l, "C14", c14_distance_zero_row, "distance", false, true, [[1], [2]]);
    for n in 1..=2usize {
        for pat in 0..(1usize << (2 * n)) {
            reg!(l, "C14", c14_hyperrectangle, "hyperrectangle, place_axis_bounds, contains", false, false, [[n, pat]]);
            // finite bounds that are exactly 0.0
            for z in 1..(1usize << (2 * n)) {
                if z & pat == 0 {
                    reg!(l, "C14", c14_hyperrectangle, "hyperrectangle, place_axis_bounds, contains", false, false, [[n, pat, z]]);
                }
            }
        }
    }
    for n in 1..=3usize {
        for axis in 0..n {
            for pat in 0..4usize {
                reg!(l, "C14", c14_axis_bounds, "axis_bounds, place_axis_bounds, contains, distance_raw", false, false, [[n, axis, pat]]);
                for z in 1..4usize {
                    if z & pat == 0 {
                        reg!(l, "C14", c14_axis_bounds, "axis_bounds, place_axis_bounds, contains, distance_raw", false, false, [[n, axis, pat, z]]);
                    }
                }
            }
        }
    }
    if t {
        reg!(l, "C14", c14_intersection, "intersection, contains", false, false, [[2, 2, 3], [3, 2, 3], [3, 3, 2]]);
        reg!(l, "C14", c14_intersection_n, "intersection_n, unbounded, contains", false, false, [[3, 2, 2], [2, 2, 3]]);
        reg!(l, "C14", c14_translate, "translate, contains", false, false, [[3, 3], [2, 3], [4, 2]]);
        reg!(l, "C14", c14_apply_pre, "apply_pre, apply, contains", false, false, [[3, 3, 2], [2, 3, 3], [3, 2, 3]]);
        reg!(l, "C14", c14_apply_post, "apply_post, contains", false, false, [[3, 2], [2, 3]]);
        reg!(l, "C14", c14_rotate, "rotate, apply_post, contains", false, false, [[3, 2], [2, 3]]);
        reg!(l, "C14", c14_rotate_image, "rotate, apply_post, contains", false, false, [[3, 2], [3, 3]]);
        for which in 0..4usize {
            reg!(l, "C14", c14_apply_post_image, "apply_post, contains", false, false, [[3, 2, which], [3, 3, which]]);
        }
        reg!(l, "C14", c14_hypercube, "hypercube, contains", false, false, [[4], [5]]);
        reg!(l, "C14", c14_intersection, "intersection, contains", false, false, [[3, 3, 3], [4, 2, 3], [2, 4, 4]]);
        reg!(l, "C14", c14_translate, "translate, contains", false, false, [[4, 4], [5, 3]]);
        reg!(l, "C14", c14_apply_pre, "apply_pre, apply, contains", false, false, [[3, 3, 3], [4, 3, 2], [2, 4, 4]]);
        reg!(l, "C14", c14_unbounded_empty, "unbounded, empty, contains", false, false, [[4], [5]]);
        reg!(l, "C14", c14_simplex, "simplex, distance_raw, contains", false, false, [[5], [6]]);
        reg!(l, "C14", c14_cross_polytope, "cross_polytope, contains", false, false, [[4]]);
        reg!(l, "C14", c14_from_normal, "from_normal, contains", false, false, [[3, 3], [4, 2]]);
        reg!(l, "C14", c14_distance, "distance, distance_raw", false, false, [[3, 3], [4, 2]]);
        reg!(l, "C14", c14_distance_norm, "distance, distance_raw", true, false, [[3]]);
        for pat in 0..64usize {
            reg!(l, "C14", c14_hyperrectangle, "hyperrectangle, place_axis_bounds, contains", false, false, [[3, pat]]);
        }
    }
    // ---------------- C15 (generic routines)
    for mask in 0..8usize {
        reg!(l, "C15", c15_remove_rows, "remove_rows, from_row_iter", false, false, [[3, 2, mask]]);
    }
    reg!(l, "C15", c15_remove_rows, "remove_rows, from_row_iter", false, false, [[2, 1, 1], [2, 1, 2], [1, 1, 0], [1, 1, 1]]);
    reg!(l, "C15", c15_remove_zero_rows, "remove_zero_rows", false, false, [[1, 1], [2, 2], [3, 2]]);
    reg!(l, "C15", c15_remove_tautologies, "remove_tautologies, empty, unbounded", false, false, [[1, 1], [2, 2], [3, 2]]);
    reg!(l, "C15", c15_normalize, "normalize", false, false, [[1, 1]]);
    for seed in 0..16usize {
        reg!(l, "C15", c15_normalize_concrete, "normalize (program concrete, points symbolic)", false, false, [[2, 2, seed], [3, 2, seed], [3, 3, seed]]);
        reg!(l, "C15", c15_remove_duplicate_concrete, "remove_duplicate_rows, normalize, remove_rows (program concrete, points symbolic)", false, false, [[2, 2, seed], [3, 2, seed], [4, 3, seed]]);
    }
    reg!(l, "C15", c15_normalize_unit, "normalize", true, false, [[1], [2]]);
    if t {
        reg!(l, "C15", c15_remove_zero_rows, "remove_zero_rows", false, false, [[3, 3]]);
        reg!(l, "C15", c15_remove_tautologies, "remove_tautologies, empty, unbounded", false, false, [[3, 3], [4, 2]]);
        for seed in 16..80usize {
            reg!(l, "C15", c15_normalize_concrete, "normalize (program concrete, points symbolic)", false, false, [[2, 2, seed], [3, 2, seed], [3, 3, seed], [4, 3, seed]]);
            reg!(l, "C15", c15_remove_duplicate_concrete, "remove_duplicate_rows, normalize, remove_rows (program concrete, points symbolic)", false, false, [[2, 2, seed], [3, 2, seed], [4, 3, seed], [5, 3, seed]]);
        }
        reg!(l, "C15", c15_normalize_unit, "normalize", true, false, [[3]]);
    }
    // ---------------- C16
    reg!(l, "C16", c16_compose, "compose, apply", false, false, [[1, 1, 1], [2, 2, 2], [2, 3, 2]]);
    reg!(l, "C16", c16_stack, "stack, apply", false, false, [[1, 1, 1], [2, 1, 2], [2, 2, 3]]);
    reg!(l, "C16", c16_apply, "apply, apply_transpose", false, false, [[1, 1], [2, 2], [3, 2], [2, 3]]);
    for op in 0..5usize {
        for variant in 0..3usize {
            reg!(l, "C16", c16_ops, "impl_ops (Add, Sub, Mul, Div, Rem), apply", false, false, [[1, 1, op, variant], [2, 2, op, variant]]);
        }
    }
    for variant in 0..3usize {
        reg!(l, "C16", c16_neg, "Neg (value), Neg (reference), negate", false, false, [[1, 1, variant], [2, 2, variant]]);
    }
    reg!(l, "C16", c16_rows, "row, row_iter, from_row_iter, view, to_owned, as_polytope, as_function, new", false, false, [[1, 1], [2, 2], [3, 2]]);
    for mask in 0..8usize {
        reg!(l, "C16", c16_remove_rows_fn, "remove_rows", false, false, [[3, 2, mask]]);
    }
    reg!(l, "C16", c16_remove_zero, "remove_zero_rows, remove_zero_columns", false, false, [[1, 1], [2, 2], [2, 1], [1, 2]]);
    for which in 0..4usize {
        reg!(l, "C16", c16_convert_to, "convert_to", false, false, [[1, 1, which], [2, 2, which]]);
    }
    reg!(l, "C16", c16_ctor_basic, "identity, zeros, constant, sum", false, false, [[1], [2], [3]]);
    reg!(l, "C16", c16_ctor_scaling, "scaling, uniform_scaling, rotation", false, false, [[1], [2], [3]]);
    reg!(l, "C16", c16_ctor_translation, "translation", false, false, [[1], [2], [3]]);
    for n in 1..=3usize {
        for i in 0..n {
            reg!(l, "C16", c16_ctor_index, "unit, zero_idx", false, false, [[n, i]]);
            for j in 0..n {
                reg!(l, "C16", c16_ctor_subtraction, "subtraction", false, false, [[n, i, j]]);
            }
        }
    }
    for n in 1..=3usize {
        for pat in 0..(1usize << n) {
            reg!(l, "C16", c16_slice, "slice", false, false, [[n, pat]]);
        }
    }
    reg!(l, "C16", c16_chebyshev_structure, "chebyshev_center", true, false, [[1, 1], [2, 2]]);
    if t {
        reg!(l, "C16", c16_compose, "compose, apply", false, false, [[3, 3, 3], [3, 2, 3], [4, 4, 4], [2, 4, 3]]);
        reg!(l, "C16", c16_stack, "stack, apply", false, false, [[3, 3, 4], [4, 2, 4]]);
        reg!(l, "C16", c16_apply, "apply, apply_transpose", false, false, [[4, 4], [4, 3]]);
        reg!(l, "C16", c16_rows, "row, row_iter, from_row_iter, view, to_owned, as_polytope, as_function, new", false, false, [[4, 3], [4, 4]]);
        for mask in 0..16usize {
            reg!(l, "C16", c16_remove_rows_fn, "remove_rows", false, false, [[4, 3, mask]]);
            reg!(l, "C15", c15_remove_rows, "remove_rows, from_row_iter", false, false, [[4, 3, mask]]);
        }
        for n in 4..=4usize {
            for pat in 0..(1usize << n) {
                reg!(l, "C16", c16_slice, "slice", false, false, [[n, pat]]);
            }
        }
        reg!(l, "C16", c16_stack, "stack, apply", false, false, [[3, 2, 3]]);
        reg!(l, "C16", c16_apply, "apply, apply_transpose", false, false, [[3, 3]]);
        for op in 0..5usize {
            for variant in 0..3usize {
                reg!(l, "C16", c16_ops, "impl_ops (Add, Sub, Mul, Div, Rem), apply", false, false, [[3, 2, op, variant], [2, 3, op, variant]]);
            }
        }
        for variant in 0..3usize {
            reg!(l, "C16", c16_neg, "Neg (value), Neg (reference), negate", false, false, [[3, 3, variant]]);
        }
        reg!(l, "C16", c16_rows, "row, row_iter, from_row_iter, view, to_owned, as_polytope, as_function, new", false, false, [[3, 3]]);
        reg!(l, "C16", c16_remove_zero, "remove_zero_rows, remove_zero_columns", false, false, [[3, 2], [2, 3]]);
        for which in 0..4usize {
            reg!(l, "C16", c16_convert_to, "convert_to", false, false, [[3, 3, which]]);
        }
        reg!(l, "C16", c16_ctor_basic, "identity, zeros, constant, sum", false, false, [[4], [5]]);
        reg!(l, "C16", c16_ctor_scaling, "scaling, uniform_scaling, rotation", false, false, [[4]]);
        reg!(l, "C16", c16_ctor_translation, "translation", false, false, [[4], [5]]);
        for i in 0..4usize {
            reg!(l, "C16", c16_ctor_index, "unit, zero_idx", false, false, [[4, i]]);
            for j in 0..4usize {
                reg!(l, "C16", c16_ctor_subtraction, "subtraction", false, false, [[4, i, j]]);
            }
        }
        reg!(l, "C16", c16_chebyshev_structure, "chebyshev_center", true, false, [[3, 2]]);
    }
    l
}

// ---------------------------------------------------------------- model parsing

#[derive(Debug)]
enum Sx {
    Atom(String),
    List(Vec<Sx>),
}

fn parse_sx(s: &str) -> Option<Sx> {
    let toks: Vec<String> = s.replace('(', " ( ").replace(')', " ) ").split_whitespace().map(|t| t.to_string()).collect();
    fn rec(toks: &[String], pos: &mut usize) -> Option<Sx> {
        if *pos >= toks.len() {
            return None;
        }
        let t = &toks[*pos];
        *pos += 1;
        if t == "(" {
            let mut v = Vec::new();
            while *pos < toks.len() && toks[*pos] != ")" {
                v.push(rec(toks, pos)?);
            }
            *pos += 1;
            Some(Sx::List(v))
        } else {
            Some(Sx::Atom(t.clone()))
        }
    }
    let mut pos = 0;
    rec(&toks, &mut pos)
}

fn eval_sx(s: &Sx) -> Option<f64> {
    match s {
        Sx::Atom(a) => a.parse::<f64>().ok(),
        Sx::List(v) => {
            let head = match v.first()? {
                Sx::Atom(a) => a.as_str(),
                _ => return None,
            };
            let args: Option<Vec<f64>> = v[1..].iter().map(eval_sx).collect();
            let args = args?;
            match (head, args.len()) {
                ("-", 1) => Some(-args[0]),
                ("-", _) => Some(args[1..].iter().fold(args[0], |a, b| a - b)),
                ("+", _) => Some(args.iter().sum()),
                ("*", _) => Some(args.iter().product()),
                ("/", 2) => Some(args[0] / args[1]),
                _ => None,
            }
        }
    }
}

fn parse_model(s: &str) -> HashMap<String, f64> {
    let mut m = HashMap::new();
    if let Some(Sx::List(pairs)) = parse_sx(s) {
        for p in pairs {
            if let Sx::List(kv) = p {
                if kv.len() == 2 {
                    if let (Sx::Atom(k), Some(v)) = (&kv[0], eval_sx(&kv[1])) {
                        m.insert(k.clone(), v);
                    }
                }
            }
        }
    }
    m
}

// ---------------------------------------------------------------- main

fn run_instance(inst: &Inst, z3: &str, path_cap: u64, timeout_ms: u64) -> Value {
    let t0 = Instant::now();
    let opts = explore::Options { z3: z3.to_string(), timeout_ms, path_cap, sqrt_exact: inst.sqrt_exact, allow_div_zero: inst.allow_div_zero, lazy: inst.lazy };
    let d = inst.d.clone();
    let f = inst.sym;
    let rep = explore::explore(&opts, &move || {
        let mut e = SymEnv;
        f(&mut e, &d);
    });
    // replay counterexamples through the f64 instantiation
    let mut viols = Vec::new();
    for (label, model, _decs) in rep.violations.iter().take(5) {
        let values = parse_model(model);
        let mut e = F64Env { values: values.clone(), assumption_failed: false, failed: vec![], missing: vec![] };
        let r = std::panic::catch_unwind(std::panic::AssertUnwindSafe(|| (inst.f64)(&mut e, &inst.d)));
        let (reproduced, detail) = match r {
            Ok(()) => (!e.failed.is_empty() && !e.assumption_failed, format!("failed checks: {:?}; assumption_failed: {}; missing: {:?}", e.failed, e.assumption_failed, e.missing)),
            Err(_) => (true, "f64 instantiation panics on the model".to_string()),
        };
        let mut vals: Vec<(String, f64)> = values.into_iter().collect();
        vals.sort_by(|a, b| a.0.cmp(&b.0));
        viols.push(json!({"label": label, "model": vals.iter().map(|(k, v)| json!([k, v])).collect::<Vec<_>>(),
                          "raw_model": model.chars().take(600).collect::<String>(),
                          "reproduced_f64": reproduced, "replay_detail": detail}));
    }
    json!({
        "harness": inst.name, "property": inst.prop, "params": inst.d, "functions": inst.functions,
        "branching": if inst.lazy { "lazy (all branches explored, feasibility decided where a path fails)" } else { "eager (both sides of every branch checked for feasibility)" },
        "sqrt": if inst.sqrt_exact { "exact witness s*s = arg" } else { "positive-scaling abstraction" },
        "paths": rep.paths, "paths_ok": rep.ok, "paths_assumption_false": rep.assumed, "checks_passed": rep.checks_passed,
        "violations": viols, "n_violating_paths": rep.violations.len(),
        "panics": rep.panics.iter().take(3).map(|(m, _)| m.clone()).collect::<Vec<_>>(), "n_panics": rep.panics.len(),
        "divzero_paths": rep.divzero.len(), "undecided": rep.undecided.iter().take(3).cloned().collect::<Vec<_>>(),
        "n_undecided": rep.undecided.len(), "path_cap_hit": rep.path_cap_hit,
        "queries": rep.queries, "sat": rep.sat, "unsat": rep.unsat, "unknown": rep.unknown, "solver_s": rep.solver_s,
        "solver_errors": rep.solver_errors.iter().take(3).cloned().collect::<Vec<_>>(),
        "sample_dialogue": rep.sample_query, "wall_s": t0.elapsed().as_secs_f64(),
    })
}

fn selftest() -> Vec<String> {
    // Sym in concrete mode must behave bit-identically to f64 (validates the Float surface the library uses)
    use num_traits::Float;
    use sym::Sym;
    let vals = [0.0, -0.0, 1.0, -1.0, 0.5, 3.25, -7.75, 1e-8, -1e-8, 2.220446049250313e-16, 1e6, f64::INFINITY, f64::NEG_INFINITY, f64::NAN];
    let mut errs = Vec::new();
    let same = |a: f64, b: f64| a.to_bits() == b.to_bits() || (a.is_nan() && b.is_nan());
    for &a in &vals {
        let sa = Sym::C(a);
        let un: [(&str, f64, f64); 6] = [("abs", a.abs(), Float::abs(sa).concrete().unwrap()), ("sqrt", a.sqrt(), Float::sqrt(sa).concrete().unwrap()),
            ("powi2", a.powi(2), Float::powi(sa, 2).concrete().unwrap()), ("neg", -a, (-sa).concrete().unwrap()),
            ("recip", a.recip(), Float::recip(sa).concrete().unwrap()), ("signum", a.signum(), Float::signum(sa).concrete().unwrap())];
        for (n, x, y) in un {
            if !same(x, y) {
                errs.push(format!("{n}({a}) f64 {x} vs Sym {y}"));
            }
        }
        if a.is_nan() != Float::is_nan(sa) || a.is_infinite() != Float::is_infinite(sa) || a.is_normal() != Float::is_normal(sa) || a.is_finite() != Float::is_finite(sa) {
            errs.push(format!("classification of {a}"));
        }
        for &b in &vals {
            let sb = Sym::C(b);
            let bi: [(&str, f64, f64); 7] = [("+", a + b, (sa + sb).concrete().unwrap()), ("-", a - b, (sa - sb).concrete().unwrap()),
                ("*", a * b, (sa * sb).concrete().unwrap()), ("/", a / b, (sa / sb).concrete().unwrap()), ("%", a % b, (sa % sb).concrete().unwrap()),
                ("max", a.max(b), Float::max(sa, sb).concrete().unwrap()), ("min", a.min(b), Float::min(sa, sb).concrete().unwrap())];
            for (n, x, y) in bi {
                if !same(x, y) {
                    errs.push(format!("{a} {n} {b}: f64 {x} vs Sym {y}"));
                }
            }
            if (a < b) != (sa < sb) || (a <= b) != (sa <= sb) || (a > b) != (sa > sb) || (a >= b) != (sa >= sb) || (a == b) != (sa == sb) {
                errs.push(format!("comparison {a} ? {b}"));
            }
            if approx::RelativeEq::relative_eq(&a, &b, f64::EPSILON, f64::EPSILON) != approx::RelativeEq::relative_eq(&sa, &sb, Sym::C(f64::EPSILON), Sym::C(f64::EPSILON)) {
                errs.push(format!("relative_eq {a} {b}"));
            }
        }
    }
    if Sym::epsilon().concrete() != Some(f64::EPSILON) {
        errs.push("epsilon".to_string());
    }
    errs
}

fn main() {
    let args: Vec<String> = std::env::args().collect();
    if args.len() == 3 && args[1] == "replay" {
        // lifted replay <file.json>: run one harness instance on a concrete model through the f64 instantiation
        std::panic::set_hook(Box::new(|_| {}));
        let obj: Value = serde_json::from_str(&std::fs::read_to_string(&args[2]).expect("read")).expect("json");
        let name = obj["harness"].as_str().unwrap();
        let params: Vec<usize> = obj["params"].as_array().unwrap().iter().map(|v| v.as_u64().unwrap() as usize).collect();
        let inst = instances(true).into_iter().find(|i| i.name == name).expect("unknown harness");
        let mut values = HashMap::new();
        for kv in obj["model"].as_array().unwrap() {
            values.insert(kv[0].as_str().unwrap().to_string(), kv[1].as_f64().unwrap());
        }
        let mut e = F64Env { values, assumption_failed: false, failed: vec![], missing: vec![] };
        let r = std::panic::catch_unwind(std::panic::AssertUnwindSafe(|| (inst.f64)(&mut e, &params)));
        match r {
            Ok(()) => {
                println!("failed checks: {:?}; assumption_failed: {}", e.failed, e.assumption_failed);
                std::process::exit(if e.failed.is_empty() { 0 } else { 1 });
            }
            Err(_) => {
                println!("f64 instantiation panics on the model");
                std::process::exit(1);
            }
        }
    }
    if args.len() != 4 {
        eprintln!("usage: lifted <quick|thorough> <C14,C15,C16> <out.json>");
        std::process::exit(2);
    }
    std::panic::set_hook(Box::new(|_| {}));
    let thorough = args[1] == "thorough";
    let props: Vec<&str> = args[2].split(',').collect();
    let z3 = std::env::var("VERIF_Z3").unwrap_or_else(|_| "/usr/bin/z3".to_string());
    let path_cap: u64 = std::env::var("VERIF_L_PATH_CAP").ok().and_then(|s| s.parse().ok()).unwrap_or(2000);
    let timeout_ms: u64 = std::env::var("VERIF_L_TIMEOUT_MS").ok().and_then(|s| s.parse().ok()).unwrap_or(8000);
    let only: Option<String> = std::env::var("VERIF_L_ONLY").ok();
    let insts: Vec<Inst> = instances(thorough).into_iter().filter(|i| props.contains(&i.prop) || i.prop == "CANARY")
        .filter(|i| only.as_ref().map(|o| i.name.contains(o.as_str())).unwrap_or(true))
        .filter(|i| std::env::var("VERIF_L_PARAMS").ok().map(|p| format!("{:?}", i.d) == p).unwrap_or(true)).collect();
    let st = selftest();
    let n = insts.len();
    let next = AtomicUsize::new(0);
    let results: Mutex<Vec<Option<Value>>> = Mutex::new(vec![None; n]);
    let jobs: usize = std::env::var("VERIF_JOBS").ok().and_then(|s| s.parse().ok()).unwrap_or(16);
    std::thread::scope(|sc| {
        for _ in 0..jobs.min(n.max(1)) {
            sc.spawn(|| loop {
                let i = next.fetch_add(1, Ordering::SeqCst);
                if i >= n {
                    break;
                }
                let r = run_instance(&insts[i], &z3, path_cap, timeout_ms);
                results.lock().unwrap()[i] = Some(r);
            });
        }
    });
    let results: Vec<Value> = results.into_inner().unwrap().into_iter().map(|r| r.unwrap()).collect();
    let out = json!({"tier": args[1], "selftest_errors": st, "results": results, "z3": z3, "path_cap": path_cap, "timeout_ms": timeout_ms});
    std::fs::write(&args[3], serde_json::to_string(&out).unwrap()).expect("write report");
}

"""Engine L runner: builds /verif/lifted against /repo, runs the harness instances of a property and writes evidence."""
import json
import os
import subprocess
import sys
import time

HERE = os.path.dirname(os.path.abspath(__file__))
VERIF = os.path.dirname(HERE)
sys.path.insert(0, os.path.join(VERIF, "smt"))
from core import Malfunction, REPO  # noqa: E402
from fw import Check, run_main, tier  # noqa: E402

FUNCTIONS = ["src/linalg/affine.rs", "src/linalg/impl_ops.rs"]
_built = {}


def build():
    if "bin" in _built:
        return _built["bin"]
    env = dict(os.environ, CARGO_NET_OFFLINE="true", CARGO_TARGET_DIR=os.path.join(VERIF, "build", "lifted"))
    lock = os.path.join(HERE, "Cargo.lock")
    if not os.path.exists(lock):
        import shutil
        shutil.copy(os.path.join(REPO, "Cargo.lock"), lock)
    t0 = time.time()
    r = subprocess.run(["cargo", "build", "--offline", "--quiet"], cwd=HERE, env=env, stdout=subprocess.PIPE, stderr=subprocess.PIPE, text=True)
    if r.returncode != 0:
        sys.stderr.write(r.stderr[-6000:])
        raise Malfunction("engine L harness crate does not build against %s (a generic bound of the linalg layer changed?)" % REPO)
    _built["bin"] = os.path.join(VERIF, "build", "lifted", "debug", "lifted")
    _built["build_s"] = time.time() - t0
    return _built["bin"]


def run_engine(props, z3bin=None):
    binp = build()
    out = os.path.join(VERIF, "build", "lifted-%s-%d.json" % ("-".join(props), os.getpid()))
    cap = 1500 if tier() == "quick" else 3600
    try:
        env = dict(os.environ)
        if z3bin:
            env["VERIF_Z3"] = z3bin
        r = subprocess.run([binp, tier(), ",".join(props), out], stdout=subprocess.PIPE, stderr=subprocess.PIPE, text=True, timeout=cap, env=env)
    except subprocess.TimeoutExpired:
        subprocess.run(["pkill", "-x", "z3"])
        raise Malfunction("engine L did not finish within %d s" % cap)
    finally:
        subprocess.run(["pkill", "-x", "z3"], stdout=subprocess.DEVNULL, stderr=subprocess.DEVNULL)
    if r.returncode != 0:
        raise Malfunction("engine L runner failed: %s" % r.stderr[-1000:])
    rep = json.load(open(out))
    os.unlink(out)
    return rep


def run_into(chk, prop):
    """run the instances of `prop` and merge the outcome into the Check object"""
    rep = run_engine([prop])
    if rep["selftest_errors"]:
        chk.malfunction("Sym in concrete mode differs from f64: %s" % rep["selftest_errors"][:3])
    paths = 0
    per_harness = {}
    canary_ok = 0
    canaries = 0
    for x in rep["results"]:
        if x["property"] == "CANARY":
            canaries += 1
            chk.canaries["expected_sat"] += 1
            if x["n_violating_paths"] > 0 and all(v["reproduced_f64"] for v in x["violations"][:1]):
                canary_ok += 1
                chk.canaries["fired"] += 1
            else:
                chk.malfunction("engine L canary %s was not refuted" % x["harness"])
            continue
        chk.programs += 1
        paths += x["paths"]
        chk.stats.sat += x["sat"]
        chk.stats.unsat += x["unsat"]
        chk.stats.unknown += x["unknown"]
        chk.stats.solver_s += x["solver_s"]
        h = per_harness.setdefault(x["harness"], {"instances": 0, "paths": 0, "checks_discharged": 0, "functions": x["functions"], "params": []})
        h["instances"] += 1
        h["paths"] += x["paths"]
        h["checks_discharged"] += x["checks_passed"]
        h["params"].append(x["params"])
        name = "%s%s" % (x["harness"], x["params"])
        if x["checks_passed"] > 0 and x["queries"] > 0:
            chk.nontrivial.add(name)
        chk.oblige(True, x["checks_passed"])
        if x["solver_errors"]:
            chk.malfunction("solver error line in %s: %s" % (name, x["solver_errors"][0]))
        if x["paths_ok"] == 0 and x["n_violating_paths"] == 0 and not x["n_panics"]:
            chk.malfunction("vacuous harness %s: no path reaches the end" % name)
        if x["path_cap_hit"]:
            chk.undecide(name, "path cap %d reached" % rep["path_cap"])
        for u in x["undecided"]:
            chk.undecide(name, "solver unknown on: %s" % u[:120])
        if x["divzero_paths"]:
            chk.report("%s/%s/division-by-zero-reachable" % (prop, x["harness"]), "%s: a division by a value that can be zero is reachable under the precondition" % name,
                       {"kind": "lifted", "harness": x["harness"], "params": x["params"], "model": []})
        if x["n_panics"]:
            chk.report("%s/%s/panic" % (prop, x["harness"]), "%s: the code panics on a feasible path under the documented precondition: %s" % (name, x["panics"][:1]),
                       {"kind": "lifted", "harness": x["harness"], "params": x["params"], "model": []})
        for v in x["violations"]:
            if v["reproduced_f64"]:
                role = v["label"].split(":")[0][:70]
                chk.report("%s/%s/%s" % (prop, x["harness"], role),
                           "%s: %s fails for %s (reproduced in the f64 instantiation: %s)" % (name, v["label"], dict(v["model"]), v["replay_detail"][:160]),
                           {"kind": "lifted", "harness": x["harness"], "params": x["params"], "model": v["model"], "label": v["label"]})
            else:
                chk.unreplayed.append("%s: %s at %s does not reproduce in f64 (%s)" % (name, v["label"], v["model"][:6], v["replay_detail"][:100]))
        if len(chk.samples) < 4 and x["paths"] > 2:
            chk.sample({"harness": x["harness"], "params": x["params"], "paths": x["paths"], "queries": x["queries"], "branching": x["branching"],
                        "sqrt": x["sqrt"], "solver_dialogue_first_path": x["sample_dialogue"][:25]})
    if tier() == "thorough":
        # second opinion: the whole exploration again with z3 5.1; path counts and verdicts per instance must coincide
        import shutil
        z3new = shutil.which("z3-new")
        if z3new:
            rep2 = run_engine([prop], z3bin=z3new)
            a = {(x["harness"], tuple(x["params"])): (x["paths"], x["paths_ok"], x["n_violating_paths"], x["n_panics"]) for x in rep["results"]}
            b = {(x["harness"], tuple(x["params"])): (x["paths"], x["paths_ok"], x["n_violating_paths"], x["n_panics"]) for x in rep2["results"]}
            und2 = {(x["harness"], tuple(x["params"])) for x in rep2["results"] if x["n_undecided"] or x["path_cap_hit"]}
            und1 = {(x["harness"], tuple(x["params"])) for x in rep["results"] if x["n_undecided"] or x["path_cap_hit"]}
            diff = [k for k in a if k in b and a[k] != b[k] and k not in und1 and k not in und2]
            chk.cov["cross_solver"] = {"instances_rerun_with": "z3 5.1.0 (z3-new)", "instances": len(b), "identical_outcome": len(b) - len(diff),
                                       "undecided_with_second_solver": len(und2)}
            for k in diff[:5]:
                chk.malfunction("engine L: z3 4.8.12 and z3 5.1 disagree on %s%s: %s vs %s" % (k[0], list(k[1]), a[k], b[k]))
    chk.cov["L_harnesses"] = per_harness
    chk.cov["L_paths_explored"] = paths
    chk.cov["L_instances"] = sum(h["instances"] for h in per_harness.values())
    chk.cov["L_solver"] = rep["z3"]
    chk.cov["L_build_s"] = round(_built.get("build_s", 0), 1)
    chk.cov["L_bounds"] = {"path_cap": rep["path_cap"], "query_timeout_ms": rep["timeout_ms"],
                           "dimensions": "see L_harnesses[*].params (rows/dims <= 3 quick, <= 4 thorough)"}
    chk.assumptions += ["engine L: the scalar is a symbolic real (exact arithmetic), not f64; counterexamples are replayed through the f64 instantiation",
                        "engine L: approx::RelativeEq for the symbolic scalar re-implements approx's float algorithm",
                        "engine L: sqrt is a fresh s >= 0 with s*s = arg (exact) or s = 0 <=> arg = 0 (positive-scaling abstraction), per harness"]


def main():
    pid = sys.argv[1]
    chk = Check(pid, "model_checking", FUNCTIONS, engine="L")
    run_into(chk, pid)
    chk.cov["states"] = chk.cov["L_paths_explored"]
    chk.cov["transitions"] = chk.stats.sat + chk.stats.unsat + chk.stats.unknown
    chk.cov["traces_validated_against_impl"] = len(chk.violations) + sum(c for _, c in chk.known_hits.values())
    chk.cov["rule"] = ("one harness per law and dimension tuple (see L_harnesses); all matrix entries, biases, points and arguments "
                       "symbolic; non-trivial = at least one law discharged by a solver query")
    chk.cov["explanation"] = ("the real generic functions of src/linalg are monomorphised at a symbolic-real scalar and executed; every "
                              "comparison the code makes is a fork decided by z3, every law is an assertion discharged by z3 on every "
                              "feasible path (states = paths explored, transitions = solver queries)")
    return chk.finish()


if __name__ == "__main__":
    run_main(main)

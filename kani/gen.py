#!/usr/bin/env python3
"""Engine K generator: writes src/generated.rs with one Kani proof harness per concrete tree shape and obligation.

Shapes: every labelled tree with <= 3 nodes for K in {2, 3} (insertion order fixed, so arena indices are 0..n-1),
plus index-reuse variants (a leaf removed and a node added elsewhere, so indices are not in traversal order).
Expected post-states / traversal items are computed here by a small reference model and emitted as constants;
the harness only selects among them by the symbolic arguments (match arms), it does not walk the tree.
"""
import itertools
import json
import sys


# ----------------------------------------------------------------------------- reference model

class M:
    """reference arena tree: nodes dict idx -> dict(parent, children list, value expr)"""

    def __init__(self, k):
        self.k = k
        self.nodes = {}
        self.free = []
        self.hw = 0
        self.root = None

    def clone(self):
        m = M(self.k)
        m.nodes = {i: {"parent": n["parent"], "children": list(n["children"]), "value": n["value"]} for i, n in self.nodes.items()}
        m.free = list(self.free)
        m.hw = self.hw
        m.root = self.root
        return m

    def _ins(self):
        if self.free:
            return self.free.pop()
        self.hw += 1
        return self.hw - 1

    def next_index(self):
        return self.free[-1] if self.free else self.hw

    def add_root(self, value):
        i = self._ins()
        self.nodes[i] = {"parent": None, "children": [None] * self.k, "value": value}
        self.root = i
        return i

    def add_child(self, parent, label, value):
        if parent not in self.nodes:
            return ("err", "InvalidIndex")
        if self.nodes[parent]["children"][label] is not None:
            return ("err", "ChildExists")
        i = self._ins()
        self.nodes[i] = {"parent": parent, "children": [None] * self.k, "value": value}
        self.nodes[parent]["children"][label] = i
        return ("ok", i)

    def descendants(self, i):
        out = []
        for c in self.nodes[i]["children"]:
            if c is not None:
                out.append(c)
                out += self.descendants(c)
        return out

    def remove_all_descendants(self, i):
        if i not in self.nodes:
            return ("err", "InvalidIndex")
        d = self.descendants(i)
        # the arena frees slots in the order the implementation removes them; the order only matters for later
        # insertions, which the harnesses do not perform after a removal of more than one node
        for x in d:
            del self.nodes[x]
            self.free.append(x)
        self.nodes[i]["children"] = [None] * self.k
        return ("ok", len(d))

    def try_remove_child(self, parent, label):
        if parent not in self.nodes:
            return ("err", "InvalidIndex")
        c = self.nodes[parent]["children"][label]
        if c is None:
            return ("err", "MissingChild")
        v = self.nodes[c]["value"]
        self.remove_all_descendants(c)
        del self.nodes[c]
        self.free.append(c)
        self.nodes[parent]["children"][label] = None
        return ("ok", v)

    def num_children(self, i):
        return sum(1 for c in self.nodes[i]["children"] if c is not None)

    def merge_child_with_parent(self, p, label):
        # precondition (asserted by the implementation): p exists and has exactly one child
        if p == self.root:
            return ("err", "RootNode")
        c = self.nodes[p]["children"][label]
        if c is None:
            return ("err", "MissingChild")
        g = self.nodes[p]["parent"]
        gl = self.nodes[g]["children"].index(p)
        self.nodes[g]["children"][gl] = c
        self.nodes[c]["parent"] = g
        del self.nodes[p]
        self.free.append(p)
        return ("ok", None)

    def update_node(self, i, value):
        if i not in self.nodes:
            return ("err", "InvalidIndex")
        old = self.nodes[i]["value"]
        self.nodes[i]["value"] = value
        return ("ok", old)

    # ---- traversals (reference)
    def kids(self, i):
        return [(l, c) for l, c in enumerate(self.nodes[i]["children"]) if c is not None]

    def dfs(self, start, skips):
        """items (depth, index, n_remaining); skips: set of positions after which skip_subtree is called"""
        out = []

        def walk(i, depth, rem):
            pos = len(out)
            out.append((depth, i, rem))
            if pos in skips:
                return
            ks = self.kids(i)
            for j, (l, c) in enumerate(ks):
                walk(c, depth + 1, len(ks) - 1 - j)
        walk(start, 0, 0)
        return out

    def dfs_edges(self, start, skips):
        out = []

        def walk(i):
            for l, c in self.kids(i):
                pos = len(out)
                out.append((i, l, c))
                if pos in skips:
                    continue
                walk(c)
        walk(start)
        return out

    def bfs(self, start, skips):
        out = []
        queue = [(0, start, 0)]
        while queue:
            d, i, r = queue.pop(0)
            pos = len(out)
            out.append((d, i, r))
            if pos in skips:
                continue
            ks = self.kids(i)
            for j, (l, c) in enumerate(ks):
                queue.append((d + 1, c, len(ks) - 1 - j))
        return out

    def depth(self):
        # number of edges on the longest root-to-leaf path: what the repository's own test_depth pins (the doc comment's
        # "a tree with only a root node has depth 1" contradicts that test and the code; noted in DESIGN 11.9)
        return max(d for d, _, _ in self.dfs(self.root, set())) if self.nodes else 0

    def path_to(self, i):
        p = []
        while self.nodes[i]["parent"] is not None:
            par = self.nodes[i]["parent"]
            p.append((par, self.nodes[par]["children"].index(i)))
            i = par
        return list(reversed(p))


def shapes(k, nmax=3):
    """list of (name, build_ops) where build_ops = list of ('root',) | ('add', parent, label) | ('remove', parent, label)"""
    out = []
    out.append(("n1", [("root",)]))
    for l1 in range(k):
        out.append(("n2_%d" % l1, [("root",), ("add", 0, l1)]))
    if nmax >= 3:
        for l1 in range(k):
            for l2 in range(k):
                out.append(("n3c_%d%d" % (l1, l2), [("root",), ("add", 0, l1), ("add", 1, l2)]))      # chain
                if l1 != l2:
                    out.append(("n3s_%d%d" % (l1, l2), [("root",), ("add", 0, l1), ("add", 0, l2)]))  # siblings
    # index reuse: root, a at label 0, b at label k-1, remove a, add under b at label 0 (gets a's old index 1)
    out.append(("reuse", [("root",), ("add", 0, 0), ("add", 0, k - 1), ("remove", 0, 0), ("add", 2, 0)]))
    # a node that got a child and lost it again: it must be a terminal again (leaf flag, terminal iterators)
    out.append(("shrunk", [("root",), ("add", 0, k - 1), ("add", 1, 0), ("remove", 1, 0)]))
    # a hole in the middle of the arena: live indices {0, 2}, so that len() - index is smaller than the subtree below index 2
    out.append(("hole", [("root",), ("add", 0, 0), ("add", 0, k - 1), ("remove", 0, 0)]))
    return out


def build_model(k, ops):
    m = M(k)
    vals = iter(range(10, 30))
    for op in ops:
        if op[0] == "root":
            m.add_root(next(vals))
        elif op[0] == "add":
            r = m.add_child(op[1], op[2], next(vals))
            assert r[0] == "ok"
        else:
            r = m.try_remove_child(op[1], op[2])
            assert r[0] == "ok"
    return m


def build_code(k, ops):
    lines = ["let mut t: Tree<u8, %d> = Tree::with_root(10, 4);" % k]
    vals = iter(range(10, 30))
    next(vals)
    for op in ops[1:]:
        if op[0] == "add":
            lines.append("let _ = t.add_child_node(%d, %d, %d);" % (op[1], op[2], next(vals)))
        else:
            lines.append("let _ = t.try_remove_child(%d, %d);" % (op[1], op[2]))
    return lines


def opt(x):
    return "None" if x is None else "Some(%s)" % x


def state_asserts(m, universe, indent="        "):
    """asserts that the tree equals model m on the index universe"""
    L = []
    L.append("assert!(t.len() == %d);" % len(m.nodes))
    L.append("assert!(t.get_root_idx() == %d);" % m.root)
    for i in universe:
        if i in m.nodes:
            n = m.nodes[i]
            L.append("{ let n = t.tree_node(%d).unwrap();" % i)
            L.append("  assert!(n.parent == %s);" % opt(n["parent"]))
            for l, c in enumerate(n["children"]):
                L.append("  assert!(n.children[%d] == %s);" % (l, opt(c)))
            L.append("  assert!(n.isleaf == %s);" % ("true" if m.num_children(i) == 0 else "false"))
            L.append("  assert!(n.value == %s); }" % n["value"])
        else:
            L.append("assert!(!t.contains(%d));" % i)
    return [indent + x for x in L]


HEADER = """// GENERATED by /verif/kani/gen.py - do not edit
use affinitree::tree::graph::{Tree, NodeError};
use affinitree::tree::iter::{Bfs, DfsEdge, DfsPre, TraversalMut};

"""


def harness(name, unwind, body):
    attr = "#[kani::should_panic]\n" if name.endswith("_should_panic") else ""
    return "#[kani::proof]\n%s#[kani::unwind(%d)]\nfn %s() {\n%s\n}\n\n" % (attr, unwind, name, "\n".join("    " + b for b in body))


def gen_c12_merge_multi(k):
    """merge_child_with_parent on a non-root node with two children must not go through: the implementation asserts
    num_children == 1 and panics before it touches anything.  #[kani::should_panic]: verified iff the call panics;
    the body holds nothing but the call, so no later assertion can stand in for the expected panic."""
    out = []
    labels = (0, k - 1)
    ops = [("root",), ("add", 0, k - 1), ("add", 1, labels[0]), ("add", 1, labels[1])]
    pre = build_code(k, ops)
    for l in labels:
        out.append(("c12_k%d_n4_merge_two_children_l%d_should_panic" % (k, l), 6,
                    list(pre) + ["let _ = t.merge_child_with_parent(1, %d);" % l]))
    return out


def gen_c12(k, sname, ops, thorough):
    m0 = build_model(k, ops)
    n = m0.hw
    universe = list(range(n + 1))
    out = []
    pre = build_code(k, ops)
    base = "c12_k%d_%s" % (k, sname)

    # ---- add_child_node
    body = list(pre) + ["let parent: usize = kani::any();", "kani::assume(parent <= %d);" % n, "let label: usize = kani::any();",
                        "kani::assume(label < %d);" % k, "let v: u8 = kani::any();", "let r = t.add_child_node(parent, label, v);",
                        "match (parent, label) {"]
    for p in range(n + 1):
        for l in range(k):
            m = m0.clone()
            r = m.add_child(p, l, "v")
            body.append("    (%d, %d) => {" % (p, l))
            if r[0] == "ok":
                body.append("        assert!(matches!(r, Ok(%d)));" % r[1])
            else:
                body.append("        assert!(r.is_err());")
            body += state_asserts(m, list(range(n + 2)))
            body.append("    }")
    body += ["    _ => {}", "}", "kani::cover!(r.is_err());", "kani::cover!(r.is_ok());"]
    out.append((base + "_add_child", 6, body))

    # ---- try_remove_child: one harness per concrete (parent, label): a symbolic label makes the index of the removed
    #      subtree symbolic and the removal loops over a heap work list (no verdict within 10 min even on 2 nodes)
    for p in range(n + 1):
        for l in range(k):
            m = m0.clone()
            r = m.try_remove_child(p, l)
            body = list(pre) + ["let r = t.try_remove_child(%d, %d);" % (p, l)]
            if r[0] == "ok":
                body.append("assert!(matches!(r, Ok(%s)));" % r[1])
            else:
                body.append("assert!(r.is_err());")
            body += [x.strip() for x in state_asserts(m, universe)]
            removes_subtree = r[0] == "ok" and len(m0.descendants(m0.nodes[p]["children"][l])) > 0
            if not removes_subtree:
                out.append((base + "_remove_child_p%d_l%d" % (p, l), 6, body))

    # ---- remove_all_descendants: one harness per concrete index (valid and invalid)
    for p in range(n + 1):
        m = m0.clone()
        r = m.remove_all_descendants(p)
        body = list(pre) + ["let r = t.remove_all_descendants(%d);" % p]
        if r[0] == "ok":
            body.append("assert!(matches!(r, Ok(%d)));" % r[1])
        else:
            body.append("assert!(r.is_err());")
        body += [x.strip() for x in state_asserts(m, universe)]
        if not (r[0] == "ok" and r[1] > 0):
            out.append((base + "_remove_all_descendants_i%d" % p, 6, body))

    # ---- update_node
    body = list(pre) + ["let idx: usize = kani::any();", "kani::assume(idx <= %d);" % n, "let v: u8 = kani::any();", "let r = t.update_node(idx, v);", "match idx {"]
    for p in range(n + 1):
        m = m0.clone()
        r = m.update_node(p, "v")
        body.append("    %d => {" % p)
        if r[0] == "ok":
            body.append("        assert!(matches!(r, Ok(%s)));" % r[1])
        else:
            body.append("        assert!(r.is_err());")
        body += state_asserts(m, universe)
        body.append("    }")
    body += ["    _ => {}", "}", "kani::cover!(r.is_err());", "kani::cover!(r.is_ok());"]
    out.append((base + "_update_node", 6, body))

    # ---- merge_child_with_parent (documented precondition: existing node with exactly one child)
    cands = [i for i in m0.nodes if m0.num_children(i) == 1]
    if cands:
        body = list(pre) + ["let idx: usize = kani::any();", "kani::assume(%s);" % " || ".join("idx == %d" % c for c in cands),
                            "let label: usize = kani::any();", "kani::assume(label < %d);" % k,
                            "let r = t.merge_child_with_parent(idx, label);", "match (idx, label) {"]
        for p in cands:
            for l in range(k):
                m = m0.clone()
                r = m.merge_child_with_parent(p, l)
                body.append("    (%d, %d) => {" % (p, l))
                body.append("        assert!(r.is_%s());" % ("ok" if r[0] == "ok" else "err"))
                body += state_asserts(m, universe)
                body.append("    }")
        body += ["    _ => {}", "}", "kani::cover!(r.is_err());"]
        out.append((base + "_merge", 6, body))

    return out


def item_assert(kind, var, exp):
    if exp is None:
        return ["assert!(%s.is_none());" % var]
    if kind == "edge":
        return ["{ let e = %s.as_ref().unwrap(); assert!(e.src == %d); assert!(e.label == %d); assert!(e.dest == %d); }" % (var, exp[0], exp[1], exp[2])]
    return ["{ let d = %s.as_ref().unwrap(); assert!(d.depth == %d); assert!(d.index == %d); assert!(d.n_remaining == %d); }" % (var, exp[0], exp[1], exp[2])]


def gen_c13(k, sname, ops, thorough, max_steps, concrete_start=False):
    m = build_model(k, ops)
    nodes = sorted(m.nodes)
    pre = [l.replace("let mut t", "let mut t") for l in build_code(k, ops)]
    out = []
    base = "c13_k%d_%s" % (k, sname)
    for kind, ty, ref in (("dfs", "DfsPre", m.dfs), ("edge", "DfsEdge", m.dfs_edges), ("bfs", "Bfs", m.bfs)):
        full_len = max(len(ref(s, set())) for s in nodes)
        steps = min(max_steps, full_len + 1)
        for j, start_nodes in [(jj, None) for jj in range(1, steps + 1)] + ([(full_len + 1, [s_]) for s_ in nodes] if concrete_start else []):
            # j calls of next(); a symbolic skip decision after each of the first j-1 calls
            if start_nodes is None:
                body = list(pre) + ["let start: usize = kani::any();", "kani::assume(%s);" % " || ".join("start == %d" % s for s in nodes),
                                    "let mut it = %s::new(&t, start);" % ty, "let h0 = it.size_hint();"]
            else:
                body = list(pre) + ["let start: usize = %d;" % start_nodes[0], "let mut it = %s::new(&t, start);" % ty, "let h0 = it.size_hint();"]
            for c in range(1, j + 1):
                body.append("let i%d = it.next(&t);" % c)
                body.append("let h%d = it.size_hint();" % c)
                if c < j:
                    body.append("let s%d: bool = kani::any();" % c)
                    body.append("if s%d { it.skip_subtree(); }" % c)
                    body.append("let g%d = it.size_hint();" % c)
            sk = ["s%d" % c for c in range(1, j)]
            body.append("match (start%s) {" % "".join(", " + s for s in sk))
            for s in (nodes if start_nodes is None else start_nodes):
                for bits in itertools.product([False, True], repeat=j - 1):
                    skips = {c for c, b in enumerate(bits) if b}
                    seq = ref(s, skips)
                    total = len(seq)
                    body.append("    (%d%s) => {" % (s, "".join(", " + ("true" if b else "false") for b in bits)))
                    # before the first call: everything is still to come (no skips assumed)
                    rem0 = len(ref(s, set()))
                    body.append("        assert!(h0.0 <= %d && h0.1.map_or(true, |u| u >= %d));" % (rem0, rem0))
                    for c in range(1, j + 1):
                        exp = seq[c - 1] if c - 1 < total else None
                        body += ["        " + x for x in item_assert(kind, "i%d" % c, exp)]
                        # items still to come after call c, assuming only the skips decided so far
                        upto = {p for p in skips if p < c - 1}
                        seq_c = ref(s, upto)
                        remc = max(len(seq_c) - c, 0)
                        body.append("        assert!(h%d.0 <= %d && h%d.1.map_or(true, |u| u >= %d));" % (c, remc, c, remc))
                        if c < j:
                            upto2 = {p for p in skips if p < c}
                            seq_g = ref(s, upto2)
                            remg = max(len(seq_g) - c, 0)
                            body.append("        assert!(g%d.0 <= %d && g%d.1.map_or(true, |u| u >= %d));" % (c, remg, c, remg))
                    body.append("    }")
            body += ["    _ => {}", "}"]
            for c in range(1, j):
                body.append("kani::cover!(s%d);" % c)
            if start_nodes is None:
                out.append(("%s_%s_step%d" % (base, kind, j), 8, body))
            else:
                out.append(("%s_%s_from%d_all%d" % (base, kind, start_nodes[0], j), 8, body))
        if thorough and full_len >= 2:
            # two consecutive skip_subtree calls after the first item must not omit more than one subtree
            body = list(pre) + ["let start: usize = kani::any();", "kani::assume(%s);" % " || ".join("start == %d" % s for s in nodes),
                                "let mut it = %s::new(&t, start);" % ty, "let i1 = it.next(&t);", "it.skip_subtree();", "it.skip_subtree();",
                                "let i2 = it.next(&t);", "match start {"]
            for s in nodes:
                seq = ref(s, {0})
                body.append("    %d => {" % s)
                body += ["        " + x for x in item_assert(kind, "i1", seq[0] if seq else None)]
                body += ["        " + x for x in item_assert(kind, "i2", seq[1] if len(seq) > 1 else None)]
                body.append("    }")
            body += ["    _ => {}", "}"]
            out.append(("%s_%s_skip_twice" % (base, kind), 8, body))
    # ---- complete traversals under every skip schedule, schedule enumerated (concrete), payload symbolic:
    #      a symbolic skip decision followed by more than one further call does not finish (measured > 10 min), a concrete
    #      schedule takes seconds; one harness per (traversal, start, schedule) - several blocks in one harness scale badly
    vpre = [l.replace(", 11);", ", kani::any());").replace(", 12);", ", kani::any());").replace(", 13);", ", kani::any());") for l in pre]
    for kind, ty, ref in (("dfs", "DfsPre", m.dfs), ("edge", "DfsEdge", m.dfs_edges), ("bfs", "Bfs", m.bfs)):
        for s0 in nodes:
            L = len(ref(s0, set()))
            positions = list(range(L))
            schedules = []
            for r in range(0, (len(positions) if thorough else min(1, len(positions))) + 1):
                for sub in itertools.combinations(positions, r):
                    schedules.append({p_: 1 for p_ in sub})
            for p_ in positions:
                schedules.append({p_: 2})          # skip_subtree called twice in a row
            for sched in schedules:
                skips = set(sched)
                seq = ref(s0, skips)
                body = list(vpre)
                body.append("let mut it = %s::new(&t, %d);" % (ty, s0))
                rem0 = len(ref(s0, set()))
                body.append("let h = it.size_hint(); assert!(h.0 <= %d && h.1.map_or(true, |u| u >= %d));" % (rem0, rem0))
                for c in range(len(seq) + 1):
                    exp = seq[c] if c < len(seq) else None
                    body.append("let i = it.next(&t);")
                    body += item_assert(kind, "i", exp)
                    if exp is not None and c in sched:
                        body += ["it.skip_subtree();"] * sched[c]
                    upto = {q_ for q_ in skips if q_ <= c}
                    remc = max(len(ref(s0, upto)) - (c + 1), 0)
                    body.append("let h = it.size_hint(); assert!(h.0 <= %d && h.1.map_or(true, |u| u >= %d));" % (remc, remc))
                tag = "".join("%d%s" % (p_, "x" * n_) for p_, n_ in sorted(sched.items())) or "none"
                if not thorough and len(seq) >= 3 and m.num_children(s0) >= 2:
                    continue      # four calls with two entries on the work list: ~300 s and out of memory at 14 GB (measured)
                out.append(("%s_%s_from%d_skips_%s" % (base, kind, s0, tag), 8, body))
    # ---- index-order iterators and num_terminals against the direct computation (loops over the arena only)
    terms = sorted(i for i in m.nodes if m.num_children(i) == 0)
    decs = sorted(i for i in m.nodes if m.num_children(i) > 0)
    body = list(pre) + ["assert!(t.num_terminals() == %d);" % len(terms), "assert!(t.len() == %d);" % len(m.nodes),
                        "assert!(t.node_indices().count() == %d);" % len(m.nodes),
                        "assert!(t.terminal_indices().count() == %d);" % len(terms),
                        "assert!(t.decision_indices().count() == %d);" % len(decs),
                        "assert!(t.node_indices().next() == Some(%d));" % nodes[0],
                        "assert!(t.node_indices().next_back() == Some(%d));" % nodes[-1],
                        "assert!(t.terminal_indices().next() == Some(%d));" % terms[0],
                        "assert!(t.terminal_indices().next_back() == Some(%d));" % terms[-1],
                        "assert!(t.decision_indices().next() == %s);" % opt(decs[0] if decs else None),
                        "assert!(t.edge_iter().count() == %d);" % (len(m.nodes) - 1)]
    out.append((base + "_index_iters", 8, body))
    # ---- loop-based metrics with concrete arguments (a symbolic index did not finish): num_nodes per node, depth, path_to_node
    for s0 in nodes:
        heavy = not thorough and len(m.descendants(s0)) >= 2 and m.num_children(s0) >= 2     # full traversal below a node with two children: > 420 s
        body = list(vpre) + ["assert!(t.num_nodes(%d) == %d);" % (s0, 1 + len(m.descendants(s0)))]
        if not heavy:
            out.append(("%s_num_nodes_%d" % (base, s0), 8, body))
        # path_to_node: no verdict within 300 s even with a concrete argument (f64 log for the capacity + parent loop): outside
    body = list(vpre) + ["assert!(t.depth() == %d);" % m.depth()]
    if thorough or not (len(m.descendants(m.root)) >= 2 and m.num_children(m.root) >= 2):
        out.append((base + "_depth", 8, body))
    return out


NATIVE_HEADER = """// GENERATED by /verif/kani/gen.py - the same harness bodies as plain functions for native replay
use affinitree::tree::graph::{Tree, NodeError};
use affinitree::tree::iter::{Bfs, DfsEdge, DfsPre, TraversalMut};
use crate::kani;

"""


def select(prop, tier):
    """harness selection per tier (DESIGN 5 C12/C13 and the measurements recorded there)"""
    thorough = tier == "thorough"
    hs = []
    for k in (2, 3):
        if k == 3 and not thorough and prop != "C12":
            continue
        for sname, ops in shapes(k):
            if prop == "C12":
                for h in gen_c12(k, sname, ops, thorough):
                    if k == 3 and not thorough:
                        # quick tier: for K=3 only the cheap concrete-argument harnesses on four shapes
                        if sname not in ("n2_1", "n3s_02", "n3s_10", "n3s_21") or not ("_remove_" in h[0] or "_update_node" in h[0]):
                            continue
                    hs.append(h)
            else:
                if not thorough and sname == "shrunk":
                    # quick tier: only the cheap arena-loop harnesses on the shrunk shape
                    hs += [h for h in gen_c13(k, sname, ops, thorough, 2) if h[0].endswith(("_index_iters", "_depth")) or "_num_nodes_" in h[0]]
                    continue
                if not thorough and sname not in ("n3c_01", "n3s_01", "reuse", "hole"):
                    continue
                if thorough and k == 3 and sname not in ("n3c_02", "n3c_21", "n3s_02", "n3s_21", "reuse", "n2_1", "shrunk", "hole"):
                    continue
                for h in gen_c13(k, sname, ops, thorough, 2):
                    # DfsEdge with two calls exhausts memory (62 GB after 15 min, measured) and three calls of any traversal
                    # do not finish in 10 min: outside the bound
                    if "_edge_step2" in h[0] or "_edge_skip_twice" in h[0]:
                        continue
                    if not thorough and "_step2" in h[0]:
                        continue      # 160-320 s each and memory-hungry: thorough tier only
                    hs.append(h)
        if prop == "C12" and (k == 2 or thorough):
            hs += gen_c12_merge_multi(k)
    return hs


def main():
    prop, tier, outpath = sys.argv[1], sys.argv[2], sys.argv[3]
    hs = select(prop, tier)
    with open(outpath, "w") as f:
        f.write(HEADER)
        for name, unwind, body in hs:
            f.write(harness(name, unwind, body))
    if len(sys.argv) > 4:
        with open(sys.argv[4], "w") as f:
            f.write(NATIVE_HEADER)
            for name, unwind, body in hs:
                f.write("pub fn %s() {\n%s\n}\n\n" % (name, "\n".join("    " + b for b in body)))
            f.write("pub fn table() -> Vec<(&'static str, fn())> {\n    vec![\n")
            for name, _, _ in hs:
                f.write("        (\"%s\", %s as fn()),\n" % (name, name))
            f.write("    ]\n}\n")
    print(json.dumps([h[0] for h in hs]))


if __name__ == "__main__":
    main()

//! Heap-free model of the `slab` crate's API as used by affinitree (engine K, DESIGN 3.1):
//! fixed capacity, same key policy (keys of removed entries are reused most-recently-freed first,
//! otherwise the next never-used key). A stub of a third-party dependency, listed in the evidence.
use core::ops::{Index, IndexMut};

pub const CAP: usize = 5;

#[derive(Clone)]
pub struct Slab<T> {
    entries: [Option<T>; CAP],
    free: [usize; CAP],
    nfree: usize,
    hw: usize,
    len: usize,
}

impl<T> Slab<T> {
    pub fn new() -> Slab<T> {
        Slab { entries: [None, None, None, None, None], free: [0; CAP], nfree: 0, hw: 0, len: 0 }
    }
    pub fn with_capacity(_capacity: usize) -> Slab<T> {
        Self::new()
    }
    pub fn capacity(&self) -> usize {
        CAP
    }
    pub fn reserve(&mut self, _additional: usize) {}
    pub fn len(&self) -> usize {
        self.len
    }
    pub fn is_empty(&self) -> bool {
        self.len == 0
    }
    pub fn contains(&self, key: usize) -> bool {
        key < CAP && self.entries[key].is_some()
    }
    pub fn get(&self, key: usize) -> Option<&T> {
        if key < CAP {
            self.entries[key].as_ref()
        } else {
            None
        }
    }
    pub fn get_mut(&mut self, key: usize) -> Option<&mut T> {
        if key < CAP {
            self.entries[key].as_mut()
        } else {
            None
        }
    }
    pub fn get2_mut(&mut self, key1: usize, key2: usize) -> Option<(&mut T, &mut T)> {
        assert!(key1 != key2);
        if key1 >= CAP || key2 >= CAP {
            return None;
        }
        let (lo, hi, swap) = if key1 < key2 { (key1, key2, false) } else { (key2, key1, true) };
        let (a, b) = self.entries.split_at_mut(hi);
        match (a[lo].as_mut(), b[0].as_mut()) {
            (Some(x), Some(y)) => Some(if swap { (y, x) } else { (x, y) }),
            _ => None,
        }
    }
    pub fn insert(&mut self, val: T) -> usize {
        let key = if self.nfree > 0 {
            self.nfree -= 1;
            self.free[self.nfree]
        } else {
            let k = self.hw;
            assert!(k < CAP, "slab model capacity exceeded");
            self.hw += 1;
            k
        };
        self.entries[key] = Some(val);
        self.len += 1;
        key
    }
    pub fn try_remove(&mut self, key: usize) -> Option<T> {
        if key >= CAP {
            return None;
        }
        let v = self.entries[key].take();
        if v.is_some() {
            self.free[self.nfree] = key;
            self.nfree += 1;
            self.len -= 1;
        }
        v
    }
    pub fn remove(&mut self, key: usize) -> T {
        self.try_remove(key).expect("invalid key")
    }
    /// keeps the entries for which `f` returns true, visiting them in key order (as the real slab does); a removed
    /// key goes onto the free list like any other removal
    pub fn retain<F>(&mut self, mut f: F)
    where
        F: FnMut(usize, &mut T) -> bool,
    {
        let mut key = 0;
        while key < CAP {
            let keep = match self.entries[key].as_mut() {
                Some(v) => f(key, v),
                None => true,
            };
            if !keep {
                let _ = self.try_remove(key);
            }
            key += 1;
        }
    }
    pub fn clear(&mut self) {
        *self = Slab::new();
    }
    pub fn vacant_key(&self) -> usize {
        if self.nfree > 0 {
            self.free[self.nfree - 1]
        } else {
            self.hw
        }
    }
    pub fn shrink_to_fit(&mut self) {}
    pub fn iter(&self) -> Iter<'_, T> {
        Iter { slab: self, front: 0, back: CAP }
    }
    pub fn iter_mut(&mut self) -> IterMut<'_, T> {
        IterMut { inner: self.entries.iter_mut().enumerate() }
    }
}

impl<T> Default for Slab<T> {
    fn default() -> Self {
        Self::new()
    }
}

impl<T> Index<usize> for Slab<T> {
    type Output = T;
    fn index(&self, key: usize) -> &T {
        self.get(key).expect("invalid key")
    }
}

impl<T> IndexMut<usize> for Slab<T> {
    fn index_mut(&mut self, key: usize) -> &mut T {
        self.get_mut(key).expect("invalid key")
    }
}

pub struct Iter<'a, T> {
    slab: &'a Slab<T>,
    front: usize,
    back: usize,
}

impl<'a, T> Iterator for Iter<'a, T> {
    type Item = (usize, &'a T);
    fn next(&mut self) -> Option<Self::Item> {
        while self.front < self.back {
            let k = self.front;
            self.front += 1;
            if let Some(v) = self.slab.entries[k].as_ref() {
                return Some((k, v));
            }
        }
        None
    }
}

impl<'a, T> DoubleEndedIterator for Iter<'a, T> {
    fn next_back(&mut self) -> Option<Self::Item> {
        while self.front < self.back {
            self.back -= 1;
            if let Some(v) = self.slab.entries[self.back].as_ref() {
                return Some((self.back, v));
            }
        }
        None
    }
}

pub struct IterMut<'a, T> {
    inner: core::iter::Enumerate<core::slice::IterMut<'a, Option<T>>>,
}

impl<'a, T> Iterator for IterMut<'a, T> {
    type Item = (usize, &'a mut T);
    fn next(&mut self) -> Option<Self::Item> {
        for (k, e) in self.inner.by_ref() {
            if let Some(v) = e.as_mut() {
                return Some((k, v));
            }
        }
        None
    }
}

impl<'a, T> DoubleEndedIterator for IterMut<'a, T> {
    fn next_back(&mut self) -> Option<Self::Item> {
        while let Some((k, e)) = self.inner.next_back() {
            if let Some(v) = e.as_mut() {
                return Some((k, v));
            }
        }
        None
    }
}

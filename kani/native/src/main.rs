// Native replay of the Kani harnesses (engine K): the same generated harness bodies run as ordinary code against the
// real build (real slab), with kani::any() replaced by an exhaustive enumeration of small domains.
#![allow(unused_imports, unused_variables, unused_mut, dead_code)]

mod generated_native;

pub mod kani {
    use std::cell::RefCell;

    thread_local! {
        pub static SCRIPT: RefCell<Vec<u64>> = RefCell::new(Vec::new());
        pub static POS: RefCell<usize> = RefCell::new(0);
        pub static DOMAINS: RefCell<Vec<u64>> = RefCell::new(Vec::new());
    }

    pub struct Skip;

    pub trait Arb {
        const DOMAIN: u64;
        fn from_u64(v: u64) -> Self;
    }
    impl Arb for usize {
        const DOMAIN: u64 = 7;
        fn from_u64(v: u64) -> usize {
            v as usize
        }
    }
    impl Arb for u8 {
        const DOMAIN: u64 = 3;
        fn from_u64(v: u64) -> u8 {
            [0u8, 7, 255][v as usize]
        }
    }
    impl Arb for bool {
        const DOMAIN: u64 = 2;
        fn from_u64(v: u64) -> bool {
            v == 1
        }
    }

    pub fn any<T: Arb>() -> T {
        let pos = POS.with(|p| {
            let mut p = p.borrow_mut();
            *p += 1;
            *p - 1
        });
        DOMAINS.with(|d| {
            let mut d = d.borrow_mut();
            if d.len() <= pos {
                d.push(T::DOMAIN);
            }
        });
        let v = SCRIPT.with(|s| s.borrow().get(pos).cloned().unwrap_or(0));
        T::from_u64(v)
    }

    pub fn assume(c: bool) {
        if !c {
            std::panic::panic_any(Skip);
        }
    }

    #[macro_export]
    macro_rules! kani_cover {
        ($($t:tt)*) => {};
    }
    pub use kani_cover as cover;
}

fn run_once(f: fn(), script: &[u64]) -> Result<(), Option<String>> {
    kani::SCRIPT.with(|s| *s.borrow_mut() = script.to_vec());
    kani::POS.with(|p| *p.borrow_mut() = 0);
    match std::panic::catch_unwind(f) {
        Ok(()) => Ok(()),
        Err(e) => {
            if e.downcast_ref::<kani::Skip>().is_some() {
                Err(None)
            } else if let Some(s) = e.downcast_ref::<&str>() {
                Err(Some(s.to_string()))
            } else if let Some(s) = e.downcast_ref::<String>() {
                Err(Some(s.clone()))
            } else {
                Err(Some("<panic>".to_string()))
            }
        }
    }
}

fn main() {
    let args: Vec<String> = std::env::args().collect();
    std::panic::set_hook(Box::new(|_| {}));
    let table = generated_native::table();
    let mut failures = 0;
    for name in &args[1..] {
        let f = match table.iter().find(|(n, _)| n == name) {
            Some((_, f)) => *f,
            None => {
                println!("{name}: unknown harness");
                std::process::exit(2);
            }
        };
        // learn the domains with an all-zero script, then enumerate the product
        kani::DOMAINS.with(|d| d.borrow_mut().clear());
        let _ = run_once(f, &[]);
        let mut script: Vec<u64> = Vec::new();
        let mut runs = 0u64;
        let mut first_fail: Option<(Vec<u64>, String)> = None;
        loop {
            let r = run_once(f, &script);
            runs += 1;
            if let Err(Some(msg)) = r {
                if first_fail.is_none() {
                    first_fail = Some((script.clone(), msg));
                }
            }
            // next script in the (growing) product of domains
            let doms = kani::DOMAINS.with(|d| d.borrow().clone());
            while script.len() < doms.len() {
                script.push(0);
            }
            let mut i = script.len();
            loop {
                if i == 0 {
                    break;
                }
                i -= 1;
                if script[i] + 1 < doms[i] {
                    script[i] += 1;
                    for j in (i + 1)..script.len() {
                        script[j] = 0;
                    }
                    break;
                }
                if i == 0 {
                    i = usize::MAX;
                    break;
                }
            }
            if i == usize::MAX || script.is_empty() || runs > 200000 {
                break;
            }
        }
        if name.ends_with("_should_panic") {
            // #[kani::should_panic] harness: it fails when no enumerated input makes the body panic
            match first_fail {
                Some(_) => println!("{name}: holds natively (the expected panic occurs) on {} enumerated inputs", runs),
                None => {
                    failures += 1;
                    println!("{name}: FAILS natively: the call returns without the expected panic ({} runs)", runs);
                }
            }
            continue;
        }
        match first_fail {
            Some((sc, msg)) => {
                failures += 1;
                println!("{name}: FAILS natively for inputs {:?} ({} runs): {}", sc, runs, msg);
            }
            None => println!("{name}: holds natively on {} enumerated inputs", runs),
        }
    }
    std::process::exit(if failures > 0 { 1 } else { 0 });
}

"""Engine K runner: generates the Kani harnesses for a property, runs cargo kani (slab model build), replays failures
natively against the real build and writes the evidence file."""
import json
import os
import re
import subprocess
import sys
import time

HERE = os.path.dirname(os.path.abspath(__file__))
VERIF = os.path.dirname(HERE)
sys.path.insert(0, os.path.join(VERIF, "smt"))
from core import Malfunction, REPO  # noqa: E402
from fw import Check, run_main, tier  # noqa: E402

FUNCTIONS = {"C12": ["src/tree/graph.rs"], "C13": ["src/tree/iter.rs", "src/tree/graph.rs"]}


def sh(cmd, cwd, env=None, timeout=None):
    e = dict(os.environ, CARGO_NET_OFFLINE="true")
    if env:
        e.update(env)
    return subprocess.run(cmd, cwd=cwd, env=e, stdout=subprocess.PIPE, stderr=subprocess.STDOUT, text=True, timeout=timeout)


def parse(out, names):
    """per harness: status in {ok, failed, oom, timeout, unknown}, failed checks, time, covers"""
    res = {n: {"status": "not-run", "failed_checks": [], "time": None, "covers": None, "checks": None} for n in names}
    cur = {}          # thread -> harness
    active = None     # thread whose block we are reading
    single = None
    for line in out.splitlines():
        m = re.match(r"^(?:Thread (\d+): )?Checking harness (?:generated::)?(\S+?)\.\.\.", line)
        if m:
            th = m.group(1) or "0"
            cur[th] = m.group(2)
            single = m.group(2)
            active = th if m.group(1) is None else None
            continue
        m = re.match(r"^Thread (\d+):\s*(.*)$", line)
        if m:
            active = m.group(1)
            line = m.group(2)
        h = cur.get(active) if active is not None else single
        if h is None or h not in res:
            continue
        r = res[h]
        if "VERIFICATION:- SUCCESSFUL" in line:
            r["status"] = "ok"
        elif "VERIFICATION:- FAILED" in line:
            if r["status"] not in ("oom", "timeout"):
                r["status"] = "failed"
            if "encountered no panics" in line:
                r["failed_checks"].append("expected panic did not occur (should_panic harness)")
        elif "out of memory" in line or "CBMC failed" in line:
            r["status"] = "oom"
        elif "timed out" in line.lower() or "timeout" in line.lower():
            r["status"] = "timeout"
        m2 = re.match(r"^\s*Failed Checks: (.*)$", line)
        if m2:
            r["failed_checks"].append(m2.group(1).strip())
        m2 = re.match(r"^\s*Verification Time: ([0-9.]+)s", line)
        if m2:
            r["time"] = float(m2.group(1))
        m2 = re.match(r"^\s*\*\* (\d+) of (\d+) cover properties satisfied", line)
        if m2:
            r["covers"] = (int(m2.group(1)), int(m2.group(2)))
        m2 = re.match(r"^\s*\*\* (\d+) of (\d+) failed", line)
        if m2:
            r["checks"] = (int(m2.group(1)), int(m2.group(2)))
    for n, r in res.items():
        if r["status"] == "failed" and not r["failed_checks"]:
            r["status"] = "inconclusive"      # CBMC died / unsatisfied cover without a failed check: never a verdict
    return res


def main():
    pid = sys.argv[1]
    chk = Check(pid, "model_checking", FUNCTIONS[pid], engine="K")
    t = tier()
    gen_rs = os.path.join(HERE, "src", "generated.rs")
    nat_rs = os.path.join(HERE, "native", "src", "generated_native.rs")
    r = sh(["python3", "gen.py", pid, t, gen_rs, nat_rs], HERE)
    if r.returncode != 0:
        raise Malfunction("generator failed: %s" % r.stdout[-500:])
    names = json.loads(r.stdout.strip().splitlines()[-1])
    for lock in (os.path.join(HERE, "Cargo.lock"), os.path.join(HERE, "native", "Cargo.lock")):
        if not os.path.exists(lock):
            import shutil
            shutil.copy(os.path.join(REPO, "Cargo.lock"), lock)
    jobs = int(os.environ.get("VERIF_KANI_JOBS", "8" if (t == "quick" and pid == "C12") else "5"))
    per = int(os.environ.get("VERIF_KANI_CAP", "420" if t == "quick" else "900"))
    cap = 3 * 3600 if t == "thorough" else 2400
    t0 = time.time()
    cmd = ["bash", "-c", "ulimit -v %d; exec cargo kani --target-dir %s -j %d --output-format terse -Z unstable-options --harness-timeout %d" % (
        int(os.environ.get("VERIF_KANI_MEM_KB", "14000000")), os.path.join(VERIF, "build", "kani-model"), jobs, per)]
    try:
        r = sh(cmd, HERE, timeout=cap)
        out = r.stdout
    except subprocess.TimeoutExpired as e:
        out = (e.stdout or b"").decode() if isinstance(e.stdout, bytes) else (e.stdout or "")
        chk.cov["overall_cap_hit"] = "cargo kani was stopped at the overall cap of %d s; harnesses not reached are listed as undecided" % cap
    finally:
        subprocess.run(["pkill", "-x", "cbmc"], stdout=subprocess.DEVNULL, stderr=subprocess.DEVNULL)
    kani_s = time.time() - t0
    if "error: could not compile" in out or "error[E" in out:
        sys.stderr.write(out[-4000:])
        raise Malfunction("the Kani harness crate does not build against %s" % REPO)
    res = parse(out, names)
    os.makedirs(os.path.join(VERIF, "build"), exist_ok=True)
    with open(os.path.join(VERIF, "build", "kani-%s.log" % pid), "w") as f:
        f.write(out)
    failed = [n for n in names if res[n]["status"] == "failed"]
    # native replay of every failing harness on the real build (dev and release)
    native = {}
    if failed:
        for profile in ("dev", "release"):
            b = sh(["cargo", "build", "--offline", "--quiet"] + (["--release"] if profile == "release" else []), os.path.join(HERE, "native"),
                   env={"CARGO_TARGET_DIR": os.path.join(VERIF, "build", "knative")})
            if b.returncode != 0:
                raise Malfunction("native replay crate does not build: %s" % b.stdout[-800:])
            binp = os.path.join(VERIF, "build", "knative", "release" if profile == "release" else "debug", "knative")
            rr = sh([binp] + failed, HERE)
            for line in rr.stdout.splitlines():
                n = line.split(":")[0]
                native.setdefault(n, {})[profile] = line
    status_count = {}
    total_checks = 0
    for n in names:
        r_ = res[n]
        status_count[r_["status"]] = status_count.get(r_["status"], 0) + 1
        chk.programs += 1
        if r_["status"] == "ok":
            chk.oblige(True)
            chk.nontrivial.add(n)
            if r_["checks"]:
                total_checks += r_["checks"][1]
            if r_["covers"] and r_["covers"][0] != r_["covers"][1]:
                chk.malfunction("vacuous harness %s: only %d of %d cover properties satisfied" % (n, r_["covers"][0], r_["covers"][1]))
        elif r_["status"] == "failed":
            nat = native.get(n, {})
            fails_native = any("FAILS natively" in v for v in nat.values())
            # role: operation / traversal + first failed assertion
            op = re.sub(r"^c1[23]_k\d_[a-z0-9]+?_(?:\d+_)?", "", n)
            role = "%s/%s/%s" % (pid, op.split("_step")[0], (r_["failed_checks"] or ["?"])[0].replace("assertion failed: ", "")[:60])
            if fails_native:
                path = os.path.join(VERIF, "replays", "%s-%s.json" % (pid, n))
                chk.report(role, "%s: Kani counterexample, reproduced natively on the real build: %s; failed checks %s" % (
                    n, list(nat.values())[0][:200], r_["failed_checks"][:3]),
                    {"kind": "kani", "harness": n, "failed_checks": r_["failed_checks"], "native": nat})
            else:
                chk.unreplayed.append("%s: Kani reports %s but the native enumeration on the real build holds (model of slab or harness wrong?)" % (
                    n, r_["failed_checks"][:2]))
        else:
            chk.undecide(n, "Kani %s (per-harness cap %d s, 12 GB)" % (r_["status"], per))
    chk.cov["states"] = max(total_checks, 1)
    chk.cov["transitions"] = max(len(names), 1)
    chk.cov["traces_validated_against_impl"] = len(failed)
    chk.cov["kani_status"] = status_count
    chk.cov["kani_wall_s"] = round(kani_s, 1)
    chk.cov["harnesses"] = len(names)
    chk.cov["cbmc_checks_discharged"] = total_checks
    chk.cov["stubs"] = ["slab -> /verif/kani/slab-model (heap-free fixed-capacity model with the same key policy; counterexamples are replayed natively on the real slab)"]
    chk.cov["samples"] = [{"harness": n, "status": res[n]["status"], "time_s": res[n]["time"], "checks": res[n]["checks"]} for n in names[:6]]
    if pid == "C12":
        chk.cov["rule"] = ("one harness per concrete shape (every labelled tree with <= 3 nodes, K=2%s, plus an index-reuse layout and a node that got a child and lost it again) and operation: "
                           "add_child_node, update_node, merge_child_with_parent with symbolic arguments (valid and invalid index, every label, "
                           "any payload); try_remove_child / remove_all_descendants with every concrete argument that removes a leaf, hits a "
                           "missing child or an invalid index; merge_child_with_parent on a node with two children (4-node shape) must hit the "
                           "implementation's assertion (#[kani::should_panic]); non-trivial = harness verified") % (", K=3" if t == "thorough" else "")
        chk.cov["explanation"] = ("Kani/CBMC model-checks the compiled Tree code: after the operation every observable of every slot (parent, "
                                  "each child link, leaf flag, value, contains, len, root) is asserted against the post-state computed by a "
                                  "reference model in the generator; an Err result must leave all of them equal to the pre-state. states = CBMC "
                                  "checks discharged, transitions = harnesses. OUTSIDE the bound: removals of subtrees with descendants "
                                  "(remove_all_descendants' work-list loop: no verdict within 10 min even for concrete arguments), trees with "
                                  "more than 3 nodes, sequences of more than one operation after the pre-state")
    else:
        chk.cov["rule"] = ("(i) symbolic start: one harness per concrete shape (3-node chain, siblings and an index-reuse layout for K=2%s), traversal (DfsPre, DfsEdge, "
                           "Bfs) and step j in 1..%d: start node symbolic over all nodes, a symbolic skip_subtree decision after every earlier "
                           "item (step 2: thorough tier only); (ii) complete traversals: one harness per shape, traversal, start node and skip schedule "
                           "(no skip, every single position, skip_subtree called twice at every position; thorough: every subset of positions) "
                           "with the schedule enumerated and the payloads symbolic; (iii) index-order iterators, num_terminals, edge_iter count "
                           "per shape; non-trivial = harness verified") % ("; all shapes <= 3 nodes K=2 and six K=3 shapes" if t == "thorough" else "", 2)
        chk.cov["explanation"] = ("Kani/CBMC model-checks the compiled traversal code: the j-th returned item (index, depth, remaining-sibling counter "
                                  "/ src, label, dest), None when exhausted, and size_hint before and after every call must equal the constants the "
                                  "generator derived from the shape (children by ascending label, skip omits the descendants of the last item). "
                                  "For complete traversals the skip schedule is enumerated, not symbolic (a symbolic decision followed by more than one call "
                                  "does not finish), so there the solver quantifies over payloads only. "
                                  "OUTSIDE the bound with a symbolic start/skip: items beyond the two leading ones (three calls did not finish in 10 min; "
                                  "DfsEdge: beyond the first, two calls exhaust 62 GB), path_to_node (no verdict in 300 s even with a concrete "
                                  "argument), depth_stats (floating-point statistics of a third-party crate)")
    chk.assumptions += ["slab is replaced by a heap-free model for CBMC; every counterexample is re-run natively on the real slab (dev and release)",
                        "bounded: shapes with <= 3 nodes, unwind 6-8 with unwinding assertions on"]
    return chk.finish()


if __name__ == "__main__":
    run_main(main)

// Engine K: Kani proof harnesses over the real arena tree (affinitree::tree). The harnesses are generated
// per concrete shape by ../gen.py into generated.rs (not committed; rebuilt on every run).
#![allow(unused_imports, unused_variables, unused_mut, clippy::all)]

#[cfg(kani)]
mod generated;

#!/bin/bash
# offline setup: pre-build the harness crates against /repo (every check rebuilds incrementally anyway)
set -e
cd "$(dirname "$0")"
export CARGO_NET_OFFLINE=true
mkdir -p build evidence replays
[ -f driver/Cargo.lock ] || cp /repo/Cargo.lock driver/Cargo.lock
(cd driver && RUSTFLAGS="--cfg affinitree_verif" CARGO_TARGET_DIR=/verif/build/driver cargo build --offline --quiet)
echo "setup ok"
[ -f lifted/Cargo.lock ] || cp /repo/Cargo.lock lifted/Cargo.lock
(cd lifted && CARGO_TARGET_DIR=/verif/build/lifted cargo build --offline --quiet)
echo "setup L ok"
[ -f kani/Cargo.lock ] || cp /repo/Cargo.lock kani/Cargo.lock
[ -f kani/native/Cargo.lock ] || cp /repo/Cargo.lock kani/native/Cargo.lock
(cd kani && python3 gen.py C12 quick src/generated.rs native/src/generated_native.rs > /dev/null && cargo kani --target-dir /verif/build/kani-model --only-codegen > /dev/null 2>&1 || true)
(cd kani/native && CARGO_TARGET_DIR=/verif/build/knative cargo build --offline --quiet || true)
echo "setup K ok"
